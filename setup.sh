#!/bin/sh
# Offline setup: installs z3-solver (and crosshair-tool, cvc5) from the local wheelhouse into /verif/.deps
# for the repository's own interpreter (/venv/bin/python). Idempotent.
set -e
cd "$(dirname "$0")"
if [ ! -f .deps/.ok ]; then
  rm -rf .deps
  PIP_NO_INDEX=1 /venv/bin/python -m pip install -q --no-index --find-links /opt/veriftools/wheels \
      --target .deps z3-solver crosshair-tool cvc5 >/dev/null 2>&1 || \
  PIP_NO_INDEX=1 /venv/bin/python -m pip install -q --no-index --find-links /opt/veriftools/wheels \
      --target .deps z3-solver
  touch .deps/.ok
fi
PYTHONPATH=$(pwd)/.deps /venv/bin/python -c "import z3; print('z3', z3.get_version_string())"
