#!/bin/sh
# usage: tools/matrix.sh [seed dirs...]  -- runs every quick check against each seeded change in a scratch worktree of /repo
# (never touches /repo itself); prints one line per (seed, check) with rc; writes /verif/seeded/matrix.txt
cd /verif
WT=/tmp/verif_matrix_wt
OUTD=/tmp/verif_matrix_out
seeds=${*:-$(ls -d seeded/S*)}
props=$(python3 -c "import json;print(' '.join(c['property_id'] for c in json.load(open('MANIFEST.json'))['checks']))")
git -C /repo worktree remove --force $WT 2>/dev/null
git -C /repo worktree add -q --detach $WT HEAD
for sd in $seeds; do
  name=$(basename $sd)
  git -C $WT checkout -q -- . ; git -C $WT apply /verif/$sd/patch.diff || { echo "$name: patch does not apply"; continue; }
  line="$name:"
  for p in $props; do
    VERIF_REPO=$WT VERIF_OUT=$OUTD ./check $p --tier quick > $OUTD.log 2>&1; rc=$?
    [ $rc -ne 0 ] && line="$line $p=$rc"
  done
  echo "$line"
done | tee seeded/matrix.txt
git -C /repo worktree remove --force $WT
rm -rf $OUTD $OUTD.log
