#!/bin/sh
# usage: tools/matrix.sh [seed dirs...]  -- runs every quick check against each seeded change in a scratch worktree of /repo
# (never touches /repo itself) from a snapshot of /verif (so editing /verif meanwhile is harmless); writes seeded/matrix.txt
SNAP=/tmp/verif_matrix_snap_$$
WT=/tmp/verif_matrix_wt_$$
rm -rf $SNAP; mkdir -p $SNAP
rsync -a --exclude .git --exclude replays --exclude evidence /verif/ $SNAP/
cd $SNAP
seeds=${*:-$(cd /verif && ls -d seeded/S*)}
props=$(python3 -c "import json;print(' '.join(c['property_id'] for c in json.load(open('MANIFEST.json'))['checks']))")
git -C /repo worktree remove --force $WT 2>/dev/null; git -C /repo worktree prune
git -C /repo worktree add -q --detach $WT HEAD
for sd in $seeds; do
  name=$(basename $sd)
  git -C $WT checkout -q -- . ; git -C $WT apply /verif/seeded/$name/patch.diff || { echo "$name: patch does not apply"; continue; }
  line="$name:"
  for p in $props; do
    VERIF_REPO=$WT VERIF_OUT=$SNAP/out timeout 900 ./check $p --tier quick > $SNAP/last.log 2>&1; rc=$?
    [ $rc -ne 0 ] && line="$line $p=$rc"
  done
  echo "$line"
done | tee -a /verif/seeded/matrix.new
git -C /repo worktree remove --force $WT
rm -rf $SNAP
