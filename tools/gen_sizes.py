#!/usr/bin/env python3
"""Regenerates the table of section 12.6 of DESIGN.md (quick tier from evidence/*.json as last written by the quick commands; thorough tier
from the summary lines of the last thorough runs, passed as log files on the command line: lines 'Cxx rc=0 123s Cxx tier=thorough ... ')."""
import glob, json, os, re, sys
ROOT = os.path.dirname(os.path.dirname(os.path.abspath(__file__)))
th = {}
for lf in sys.argv[1:]:
    for line in open(lf, errors='replace'):
        m = re.match(r'(C\d\d) rc=(\d+) (\d+)s C\d\d tier=thorough seed=\d+: (\d+) obligations.*?; (\d+) paths', line)
        if m:
            th[m.group(1)] = (int(m.group(4)), int(m.group(5)), int(m.group(3)), int(m.group(2)))
rows = []
for f in sorted(glob.glob(os.path.join(ROOT, 'evidence', 'C*.json'))):
    e = json.load(open(f))
    c = e['coverage']
    p = e['property_id']
    q = '%d / %d / %d s' % (c['obligations'], c['states'], round(e['wall_s'])) if e.get('tier') == 'quick' else '(evidence is from the %s tier)' % e.get('tier')
    kf = c.get('obligations_violated_known_finding', 0)
    if kf:
        q += ' (%d known-finding obligations)' % kf
    t = th.get(p)
    tt = '%d / %d / %d s' % t[:3] if t else 'not re-measured in the last session'
    rows.append('| %s | %s | %s |' % (p, q, tt))
table = '| id | quick: obligations / paths / wall | thorough: obligations / paths / wall |\n|---|---|---|\n' + '\n'.join(rows)
p = os.path.join(ROOT, 'DESIGN.md')
s = open(p).read()
i = s.index('| id | quick: obligations / paths / wall | thorough: obligations / paths / wall |')
j = s.index('\n\n', i)
s = s[:i] + table + s[j:]
open(p, 'w').write(s)
print(table)
