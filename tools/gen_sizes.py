#!/usr/bin/env python3
"""Regenerates the table of section 12.6 of DESIGN.md (quick tier from evidence/*.json as last written by the quick commands; thorough tier
from the summary lines of the last thorough runs, passed as log files on the command line: lines 'Cxx rc=0 123s Cxx tier=thorough ... ')."""
import glob, json, os, re, sys
ROOT = os.path.dirname(os.path.dirname(os.path.abspath(__file__)))
th = {}
for lf in sys.argv[1:]:
    for line in open(lf, errors='replace'):
        m = re.match(r'(C\d\d) rc=(\d+) (\d+)s C\d\d tier=thorough seed=\d+: (\d+) obligations.*?; (\d+) paths', line)
        if m:
            th[m.group(1)] = (int(m.group(4)), int(m.group(5)), int(m.group(3)), int(m.group(2)))
rows = []
for f in sorted(glob.glob(os.path.join(ROOT, 'evidence', 'C*.json'))):
    e = json.load(open(f))
    c = e['coverage']
    p = e['property_id']
    q = '%d / %d / %d s' % (c['obligations'], c['states'], round(e['wall_s'])) if e.get('tier') == 'quick' else '(evidence is from the %s tier)' % e.get('tier')
    kf = c.get('obligations_violated_known_finding', 0)
    if kf:
        q += ' (%d known-finding obligations)' % kf
    t = th.get(p)
    tt = '%d / %d / %d s' % t[:3] if t else 'not re-measured in the last session'
    rows.append('| %s | %s | %s |' % (p, q, tt))
table = '| id | quick: obligations / paths / wall | thorough: obligations / paths / wall |\n|---|---|---|\n' + '\n'.join(rows)
p = os.path.join(ROOT, 'DESIGN.md')
s = open(p).read()
i = s.index('| id | quick: obligations / paths / wall | thorough: obligations / paths / wall |')
j = s.index('\n\n', i)
s = s[:i] + table + s[j:]
# section 0: last column of the at-a-glance table
qs = {}
for f in sorted(glob.glob(os.path.join(ROOT, 'evidence', 'C*.json'))):
    e = json.load(open(f))
    qs[e['property_id']] = round(e['wall_s'])
a = s.index('## 0. At a glance')
b = s.index('## 1. The technique')
sec = s[a:b]
def fix(m):
    pid = m.group(1)
    cells = m.group(0).rstrip('|').split('|')
    t = th.get(pid)
    cells[-1] = ' %s s / %s (measured, 16 cores, machine shared with other jobs) ' % (qs.get(pid, '?'), ('%d s' % t[2]) if t else 'see 12.6')
    return '|'.join(cells) + '|'
sec = re.sub(r'^\| (C\d\d) \|.*\|$', fix, sec, flags=re.M)
s = s[:a] + sec + s[b:]
open(p, 'w').write(s)
print(table)
