#!/bin/sh
# usage: tools/try_seed.sh <dir with patch.diff [demo.py]> <prop> [more props...]
# Applies the seeded change to /repo, runs the suite, the demo and the given checks (quick), and ALWAYS restores /repo.
d=$1; shift
cd /repo || exit 2
if [ -n "$(git status --porcelain --untracked-files=no)" ]; then echo "/repo not clean"; exit 2; fi
trap 'git -C /repo checkout -- . ; rm -f /repo/demo_seed.py' EXIT INT TERM
if [ -f "$d/demo.py" ]; then
  cp "$d/demo.py" /repo/demo_seed.py
  echo "== demo without change:"; (cd /repo && PYTHONPATH=/repo timeout 120 /venv/bin/python demo_seed.py 2>&1 | tail -2; echo "exit=$?")
fi
git apply "$d/patch.diff" || { echo "patch does not apply"; exit 2; }
echo "== suite with change: $(/venv/bin/python -m pytest -q -p no:cacheprovider --continue-on-collection-errors 2>&1 | tail -1)"
if [ -f "$d/demo.py" ]; then
  echo "== demo with change:"; (cd /repo && PYTHONPATH=/repo timeout 120 /venv/bin/python demo_seed.py > /tmp/demo_out.txt 2>&1; rc=$?; tail -2 /tmp/demo_out.txt; echo "exit=$rc")
fi
for p in "$@"; do
  s=$(date +%s)
  out=$(cd /verif && ./check $p --tier ${TIER:-quick} 2>&1); rc=$?
  echo "== $p rc=$rc $(( $(date +%s) - s ))s: $(echo "$out" | tail -1 | cut -c1-160)"
  echo "$out" | grep "^VIOLATION" | head -${SHOW:-3} | cut -c1-260
done
