#!/usr/bin/env python3
"""Writes /verif/MANIFEST.json from the table below (kept in one place so it stays consistent)."""
import json, os
ROOT = os.path.dirname(os.path.dirname(os.path.abspath(__file__)))

TECH = ('symbolic execution of the real rtamt functions on z3-backed extended-real proxies (DART-style path '
        'exploration), property asserted per path and decided by z3 for all values within the stated bounds; '
        'counterexamples replayed concretely on the unpatched code')
NOTE = ('trusted: z3 5.1, CPython, the symx proxy arithmetic (reals, not IEEE doubles) and the min/max/float/math stubs '
        '(cross-checked concolically on every obligation); specifications, monitor kinds and sizes are enumerated, not solver-decided')

TECH14 = ('symbolic execution of the real parse() on z3-backed symbolic character codes (DART-style path exploration through the antlr4 ATN interpreter and the '
          'rtamt parser visitor); per path the outcome is compared with an independent recogniser generated from the .g4 files and run on the same symbolic characters; '
          'interval bounds as z3 reals; counterexamples replayed concretely on the unpatched code')
NOTE14 = ('trusted: z3 5.1, CPython, the antlr4 runtime with three harness stubs (symbolic InputStream, no lexer DFA edge cache, IntervalSet membership by comparison), the '
          '.g4 reader and Earley recogniser of vf/g4.py; characters whose text is read are forked per value where the value matters (numeric literals, names that '
          'exist) and represented by class otherwise; templates and positions are enumerated, not solver-decided')

CLAIMED = {
    'C01': ('6.C01', 'for every enumerated specification (every operator x bounds x trace length, all depth-2 nestings, seeded deeper ones) '
            'z3 shows offline evaluate() == README robustness for all sample values and time-stamps'),
    'C02': ('6.C02', 'N symbolic updates cover every monitor state reachable in <=N steps for all values; z3 shows update_i == offline[i] == rho; '
            'plus a one-step inductive obligation from an arbitrary buffer state for the bounded operations'),
    'C03': ('6.C03', 'pastify() runs on each enumerated bounded-future specification, the rewritten monitor runs on symbolic samples and z3 shows '
            'update_i == rho(phi, prefix, i-h) for all values and all i>=h, with h computed independently; unit spellings and unbounded-future rejection included'),
    'C04': ('6.C04', 'per dense-time operator: time-stamps, values and the evaluation instant are symbolic; z3 shows the returned sample list is '
            'well-formed, covers the domain start and equals the dense-time semantics at every instant of the common domain'),
    'C05': ('6.C05', 'every split of the n samples of each variable into consecutive update() batches is enumerated; for each schedule z3 shows, for all '
            'time-stamps, values and instants, that the concatenated output is monotone and equals the offline robustness of the whole signal'),
    'C06': ('6.C06', 'semantics x monitor kind x io-assignment x predicate x context are enumerated; for each configuration z3 shows equality with the '
            'README_extensions predicate override for all sample values (and all instants in dense time)'),
    'C07': ('6.C07', 'z3 shows (rho>0 => sat) and (rho<0 => not sat) for all sample values, on whole formulas over predicate atoms and as an inductive step per '
            'operator with arbitrary operand values/truths; and verdict invariance for every second trace within |rho|; discrete offline/online and dense at symbolic tau'),
    'C08': ('6.C08', 'every spelling of each duration (unit on both/one end, mixed, default unit, constants, period in another unit) is enumerated; z3 shows each '
            'equals the README semantics of the sample-level bound for all values (offline, online, pastified); non-multiples raise RTAMTException; in addition the two bounds of an operator are themselves solver variables (any rationals 0 <= B <= E <= 4 periods): rejected iff not a multiple, sample counts exact; dense time at symbolic tau'),
    'C09': ('6.C09', 'decompositions (add_sub_spec, several assertions, nested sub-specs, constants as operands/bounds) are enumerated; z3 shows the modular and the '
            'inlined monitor return the same values for all samples, for the four monitor kinds and after pastify()'),
    'C10': ('6.C10', 'pre-reset history (k symbolic updates) and post-reset inputs are symbolic; z3 shows the reset object and a fresh object return equal values and '
            'equal sampling counters; discrete and dense time, sub-specifications, pastified specifications, reset before the first update'),
    'C11': ('6.C11', 'after each call the caller containers are compared with a structural snapshot on every path; repeated and interleaved calls are compared with '
            'solo runs by z3 for all values; the hash-seed clause is decided by enumerating seeds in sub-processes (stated as enumeration, not solver-decided)'),
    'C12': ('6.C12', 'after symbolic evaluate()/update(), for every input variable and every assertion/sub-spec name z3 shows get_value(name) equals the supplied data '
            '/ the result of a stand-alone (pastified) specification of that name, for all values; four monitor kinds'),
    'C13': ('6.C13', 'time-stamps (not assumed monotone) and the tolerance are symbolic, period/period unit/default unit are enumerated; on every path the concrete counter '
            'is shown by z3 to equal the number of gaps outside [P(1-tol),P(1+tol)]; robustness values are shown independent of the time-stamps'),
    'C14': ('6.C14', 'BOUNDED to texts within two characters of a template and to the numeric side conditions: the character codes of one or two arbitrary '
            'characters (any code point) replacing or inserted into each position of the templates (the last one and an appended one included) are solver variables; the real parse() (generated ANTLR lexer/parser '
            'interpreted by the antlr4 runtime, error listener, parser visitor) runs on them, every comparison forks, and per path z3-feasible class the outcome must be '
            'accepted-and-derivable (independent recogniser regenerated from the .g4 files) or RTAMTException; interval bounds are arbitrary non-negative rationals and '
            'parse() may accept only 0 <= begin <= end; longer edit distances, deep nesting and termination beyond the explored paths are outside the claim'),
    'C15': ('6.C15', 'the finite variant space (aliases read from the lexer grammar of the current tree, separators, parentheses, semicolon/head, LTL front end, every ordered '
            'operator pair against the grouping prescribed by the parser grammar, unless sugar) is enumerated; for each pair of texts z3 shows equal results and equality with '
            'the intended AST semantics for all sample values'),
    'C16': ('6.C16', 'trace and extension are symbolic; z3 shows evaluate(w1++e) and evaluate(w1) agree for all values at every t with t+h inside w1 (discrete) and at '
            'every symbolic instant tau with tau+h < end(w1) (dense), h computed independently of rtamt'),
    'C17': ('6.C17', 'every supported operator x monitor kind runs on symbolic 1-, 2- and 4-sample data (with unused/undeclared variables, permuted inputs): every path must '
            'return normally; every unsupported construct x monitor kind must end in RTAMTException by the first evaluation, on the single data-independent path'),
    'C18': ('6.C18', 'both sides of each law are two specifications run by the same monitor on the same symbolic trace (operands: extended-real variables and compound '
            'formulas); z3 shows equal outputs for all values, for every monitor kind that supports both sides'),
    'C19': ('6.C19', 'grid-aligned step signals with symbolic values are fed to the dense-time and the discrete-time monitor; z3 shows the dense output at k*P equals the '
            'discrete output at sample k (and the README semantics) for all values, for every k whose future windows end inside the trace'),
    'C20': ('6.C20', 'on each path of (evaluate; explain) over a symbolic violating trace the reported positions are concrete; z3 shows that no second trace agreeing on '
            'those positions satisfies the specification at time 0, and that nothing is reported when the robustness is not negative'),
}
NA = {}

def main():
    props = [json.loads(l)['id'] for l in open(os.path.join(ROOT, 'properties.jsonl'))]
    checks = []
    for p in props:
        if p in CLAIMED:
            ref, text = CLAIMED[p]
            checks.append({
                'property_id': p,
                'quick_cmd': './check %s --tier quick' % p,
                'thorough_cmd': './check %s --tier thorough' % p,
                'evidence_file': 'evidence/%s.json' % p,
                'replay_cmd_template': './check %s --replay {path}' % p,
                'engine': 'symx',
                'level_claimed': {'category': 'model_checking', 'text': 'bounded symbolic model checking of the real code: ' + text,
                                  'design_ref': 'DESIGN.md section ' + ref},
                'level_note': NOTE if p != 'C14' else NOTE14,
                'technique': TECH if p != 'C14' else TECH14,
            })
    na = [{'property_id': p, 'reason': NA.get(p, 'check not built yet in this round (work in progress)')} for p in props if p not in CLAIMED]
    m = {
        'version': 1,
        'setup_cmd': './setup.sh',
        'hooks': {'guard': 'NICKOVIC_RTAMT_VERIF', 'enable': 'no source hooks: instrumentation is done by rebinding names in rtamt.* module namespaces from the harness',
                  'baseline_off_cmd': 'cd /repo && /venv/bin/python -m pytest -ra -q -p no:cacheprovider --timeout=900 --continue-on-collection-errors',
                  'source_commits': [], 'add_only': True},
        'engines': [{'name': 'symx', 'path': 'vf/symx.py', 'serves_properties': sorted(CLAIMED),
                     'kind_free_text': 'shadow symbolic executor for Python numeric code over z3 (extended reals), with DART-style re-execution'}],
        'checks': checks,
        'not_applicable': na,
        'notes': 'exit codes: 0 held, 1 violation (VIOLATION line), 3 inconclusive/harness error. Genuine defects repaired in /repo are listed as fixed: lines in known_findings.jsonl.',
    }
    json.dump(m, open(os.path.join(ROOT, 'MANIFEST.json'), 'w'), indent=1)

if __name__ == '__main__':
    main()
