#!/bin/sh
# usage: tools/regress_seeds.sh [seed dirs...]  -- for every seeded change: apply it in a scratch worktree of /repo HEAD and run the quick check of
# the property it was written for (and nothing else); prints one line per seed.  rc=1 means the check reports the change.
HERE=$(cd "$(dirname "$0")/.." && pwd)
WT=/tmp/verif_regress_wt_$$
OUT=/tmp/verif_regress_out_$$
trap 'git -C /repo worktree remove --force $WT 2>/dev/null; rm -rf $OUT' EXIT INT TERM
git -C /repo worktree add -q --detach $WT HEAD || exit 2
cd $HERE
for d in ${*:-$(ls -d seeded/S* | sort -t S -k2 -n)}; do
  name=$(basename $d)
  prop=$(python3 -c "import json;print(json.load(open('$HERE/seeded/$name/meta.json'))['breaks_property'])")
  git -C $WT checkout -q -- . ; git -C $WT apply $HERE/seeded/$name/patch.diff || { echo "$name: patch does not apply"; continue; }
  s=$(date +%s)
  VERIF_REPO=$WT VERIF_OUT=$OUT timeout 1500 ./check $prop --tier quick > $OUT.log 2>&1; rc=$?
  echo "$name $prop rc=$rc $(( $(date +%s) - s ))s $(grep -c '^VIOLATION' $OUT.log) violations"
done
