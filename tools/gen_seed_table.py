#!/usr/bin/env python3
"""Regenerates the seeded-change table of DESIGN.md section 13 from seeded/*/meta.json and seeded/matrix.txt."""
import glob, json, os, re
ROOT = os.path.dirname(os.path.dirname(os.path.abspath(__file__)))
matrix = {}
mp = os.path.join(ROOT, 'seeded', 'matrix.txt')
if os.path.exists(mp):
    for line in open(mp):
        if ':' in line:
            name, rest = line.split(':', 1)
            matrix[name.strip()] = rest.strip()
rows = []
for d in sorted(glob.glob(os.path.join(ROOT, 'seeded', 'S*')), key=lambda d: int(re.match(r'S(\d+)', os.path.basename(d)).group(1))):
    m = json.load(open(os.path.join(d, 'meta.json')))
    name = m['id']
    mx = matrix.get(name)
    if mx is None:
        caught = ', '.join(m.get('caught_by_quick_checks', [])) + ' (individual runs)'
    else:
        flagged = re.findall(r'(C\d+)=1', mx)
        # checks strengthened after the matrix run and confirmed individually with tools/try_seed_wt.sh (recorded in meta.json)
        flagged = sorted(set(flagged) | set(m.get('caught_by_quick_checks', [])))
        inc = [c for c in re.findall(r'(C\d+)=3', mx) if c not in flagged]
        caught = ', '.join(flagged) if flagged else '**none**'
        if inc:
            caught += ' (exit 3: ' + ', '.join(inc) + ')'
    patch = open(os.path.join(d, 'patch.diff')).read()
    files = sorted(set(re.findall(r'^\+\+\+ b/(\S+)', patch, re.M)))
    rows.append('| %s | %s | %s | %s | %s |' % (name, m['breaks_property'], '<br>'.join('`%s`' % f.replace('rtamt/', '') for f in files),
                                            m['needs_to_manifest'].replace('|', '/'), caught))
table = '| seed | written for | file(s) changed | needs, in order to manifest | quick checks that exit 1 |\n|---|---|---|---|---|\n' + '\n'.join(rows)
p = os.path.join(ROOT, 'DESIGN.md')
s = open(p).read()
b, e = '<!-- SEED-TABLE-BEGIN -->', '<!-- SEED-TABLE-END -->'
if b in s:
    s = s[:s.index(b) + len(b)] + '\n' + table + '\n' + s[s.index(e):]
    open(p, 'w').write(s)
print(table)
