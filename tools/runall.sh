#!/bin/sh
# usage: tools/runall.sh [tier] [seed...]   -- runs every claimed check, prints one line each
cd "$(dirname "$0")/.."
tier=${1:-quick}; shift
seeds=${*:-0}
for sd in $seeds; do
  for p in $(python3 -c "import json;print(' '.join(c['property_id'] for c in json.load(open('MANIFEST.json'))['checks']))"); do
    s=$(date +%s)
    out=$(VERIF_SEED=$sd ./check $p --tier $tier 2>&1); rc=$?
    echo "rc=$rc $(( $(date +%s) - s ))s $(echo "$out" | tail -1)"
    [ $rc -ne 0 ] && echo "$out" | grep -v "^KNOWN" | head -5
  done
done
