#!/usr/bin/env python3
"""usage: keep_seed.py <srcdir> <name> <property> <caught_by (comma list or 'none')> <needs...>"""
import json, os, shutil, sys, subprocess
src, name, prop, caught = sys.argv[1:5]
needs = ' '.join(sys.argv[5:])
d = os.path.join('/verif/seeded', name)
os.makedirs(d, exist_ok=True)
shutil.copy(os.path.join(src, 'patch.diff'), os.path.join(d, 'patch.diff'))
if os.path.exists(os.path.join(src, 'demo.py')):
    shutil.copy(os.path.join(src, 'demo.py'), os.path.join(d, 'demo.py'))
notes = open(os.path.join(src, 'notes.txt')).read() if os.path.exists(os.path.join(src, 'notes.txt')) else ''
meta = {'id': name, 'breaks_property': prop, 'needs_to_manifest': needs, 'author': 'independent sub-agent given only the property text and a scratch worktree',
        'confirmed': 'applied to /repo with git apply: suite 509 passed; demo exits 0 without and 1 with the change (tools/try_seed.sh); /repo restored afterwards',
        'caught_by_quick_checks': [] if caught == 'none' else caught.split(','), 'notes': notes,
        'repo_base_commit': subprocess.check_output(['git', '-C', '/repo', 'rev-parse', '--short', 'HEAD']).decode().strip()}
json.dump(meta, open(os.path.join(d, 'meta.json'), 'w'), indent=1)
print('kept', d)
