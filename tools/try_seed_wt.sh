#!/bin/sh
# usage: tools/try_seed_wt.sh <dir with patch.diff [demo.py]> <prop> [more props...]
# Like try_seed.sh, but never touches /repo: the seeded change is applied in a scratch worktree of /repo's HEAD and the
# checks run against it through VERIF_REPO; evidence/replays go to a scratch directory.
d=$(cd "$1" && pwd); shift
WT=/tmp/verif_seed_wt_$$
OUT=/tmp/verif_seed_out_$$
trap 'git -C /repo worktree remove --force $WT 2>/dev/null; rm -rf $OUT' EXIT INT TERM
git -C /repo worktree add -q --detach $WT HEAD || exit 2
[ -f "$d/demo.py" ] && cp "$d/demo.py" $WT/demo_seed.py
if [ -f "$d/demo.py" ]; then
  echo "== demo without change: $(cd $WT && PYTHONPATH=$WT timeout 120 /venv/bin/python demo_seed.py >/dev/null 2>&1; echo exit=$?)"
fi
git -C $WT apply "$d/patch.diff" || { echo "patch does not apply"; exit 2; }
echo "== suite with change: $(cd $WT && PYTHONPATH=$WT /venv/bin/python -m pytest -q -p no:cacheprovider --continue-on-collection-errors 2>&1 | tail -1)"
if [ -f "$d/demo.py" ]; then
  echo "== demo with change: $(cd $WT && PYTHONPATH=$WT timeout 120 /venv/bin/python demo_seed.py >/dev/null 2>&1; echo exit=$?)"
fi
for p in "$@"; do
  s=$(date +%s)
  out=$(cd /verif && VERIF_REPO=$WT VERIF_OUT=$OUT ./check $p --tier ${TIER:-quick} 2>&1); rc=$?
  echo "== $p rc=$rc $(( $(date +%s) - s ))s: $(echo "$out" | tail -1 | cut -c1-160)"
  echo "$out" | grep "^VIOLATION" | head -${SHOW:-3} | cut -c1-260
done
