"""Discrete-time harness helpers: build real rtamt specifications through the public API and feed them
symbolic (or, on replay, concrete) data."""
import rtamt

from . import refsem
from .refsem import T, text, variables

KINDS = {
    'combined': lambda **kw: rtamt.StlDiscreteTimeSpecification(**kw),
    'offline': lambda **kw: rtamt.StlDiscreteTimeOfflineSpecification(**kw),
    'online': lambda **kw: rtamt.StlDiscreteTimeOnlineSpecification(**kw),
}


def pick_kind(kind, spec_text):
    """'offline~' / 'online~': the caller needs an offline- (online-) capable specification and does not care which class provides it;
    a third of the specification texts (chosen by a hash of the text, so deterministically) get the class that has both monitors,
    so that the wrapper code of both classes is exercised by the same families"""
    if kind.endswith('~'):
        import zlib
        return 'combined' if zlib.crc32(spec_text.encode()) % 3 == 0 else kind[:-1]
    return kind


def make_spec(kind, spec_text, vars_, pastify=False, unit=None, period=None, consts=(), subs=(), io=None, f=None, config_after_parse=False, **kw):
    kind = pick_kind(kind, spec_text)
    if f is not None and unit is None and period is None:
        period, unit = refsem.cfg(f)           # notation cases of vf/pool.py carry their sampling period and default unit
    if config_after_parse:
        # the default unit and the sampling period are set AFTER parse() (and before the first evaluation): the order must not matter
        s = make_spec(kind, spec_text, vars_, consts=consts, subs=subs, io=io, **kw)
        if unit is not None:
            s.unit = unit
        if period is not None:
            s.set_sampling_period(*period)
        if pastify:
            s.pastify()
        return s
    s = KINDS[kind](**kw)
    for v in vars_:
        s.declare_var(v, 'float')
    for (n, ty, val) in consts:
        s.declare_const(n, ty, val)
    if io:
        for v, t in io.items():
            for t1 in t.split('>'):          # 'input>output': declared one way first and corrected afterwards; the last call counts
                if t1 == 'redeclare':
                    s.declare_var(v, 'float')      # declared again without an io qualifier: back to the default (output)
                else:
                    s.set_var_io_type(v, t1)
    if unit is not None:
        s.unit = unit
    if period is not None:
        s.set_sampling_period(*period)
    for sub in subs:
        s.add_sub_spec(sub)
    s.spec = spec_text
    s.parse()
    if pastify:
        s.pastify()
        if pastify == 'twice':
            s.pastify()           # a second pastify() finds no future operator any more: it must not change anything
    return s


def trace(env, vars_, n, ext=False, prefix=''):
    """dict var -> list of n fresh values"""
    mk = env.ext if ext else env.real
    return {v: [mk('%s%s%d' % (prefix, v, i)) for i in range(n)] for v in vars_}


def offline(s, w, n, times=None):
    d = {v: list(w[v]) for v in w}
    d['time'] = list(times) if times is not None else list(range(n))
    return s.evaluate(d)


def online(s, w, n, times=None, order=None):
    out = []
    vs = order or sorted(w)
    for i in range(n):
        t = times[i] if times is not None else i
        out.append(s.update(t, [(v, w[v][i]) for v in vs]))
    return out


def eq_list(A, label, got, want):
    """assertions got[t] == want[t] (extended-real equality)"""
    out = []
    if len(got) != len(want):
        return [('%s-length' % label, A.false)]
    for t in range(len(want)):
        out.append(('%s@%d' % (label, t), A.eq(got[t], want[t])))
    return out


def obj_spec(kind, f, semantics=None, io=None, pastify=False):
    """the variables of f (x, y, z) become the fields of ONE variable m of a user type (import_module + declare_var): returns the
    specification and a function that turns a trace dict into the column of objects"""
    from . import objmsg
    f = T(f)

    def ren(g):
        g = T(g)
        if g[0] == 'var':
            return ('var', 'm.' + g[1])
        return tuple(ren(c) if isinstance(c, tuple) else c for c in g)
    s = KINDS[kind](**({'semantics': semantics} if semantics is not None else {}))
    s.import_module('vf.objmsg', 'Msg')
    s.declare_var('m', 'Msg')
    if io:
        s.set_var_io_type('m', io)
    s.spec = 'out = ' + text(ren(f))
    s.parse()
    if pastify:
        s.pastify()
    vs = sorted(variables(f))
    return s, (lambda w, i: objmsg.Msg(**{v: w[v][i] for v in vs}))
