"""Obligations, verdicts, replay, known findings, evidence."""
import fnmatch
import hashlib
import importlib
import json
import multiprocessing
import os
import random
import sys
import time
import traceback

import z3

from . import symx
from .symx import Inconclusive, PathAbort

ROOT = os.path.dirname(os.path.dirname(os.path.abspath(__file__)))
REPO = os.environ.get('VERIF_REPO', '/repo')
OUT = os.environ.get('VERIF_OUT', ROOT)      # evidence/ and replays/ go here (tools/matrix.sh redirects them)
EXIT_OK, EXIT_VIOLATION, EXIT_HARNESS = 0, 1, 3


# --------------------------------------------------------------------------
# obligations
# --------------------------------------------------------------------------
def ob(prop, harness, oid, max_paths=5000, wall=120, validate=1, expect=None, sweep=0, **params):
    """An obligation is data: (property module, harness name, JSON-able params)."""
    return {'prop': prop, 'harness': harness, 'oid': '%s/%s' % (prop, oid), 'params': params,
            'max_paths': max_paths, 'wall': wall, 'validate': validate, 'expect': expect, 'sweep': sweep}


def make_twins(obs, picks):
    """Vacuity guard: clone the first obligation whose id contains `sub` with a deliberately wrong oracle `twin`;
    such an obligation MUST come back violated (with a model that replays), otherwise the check exits 3."""
    import re
    out = []
    for sub, twin in picks:
        cands = [sub, re.sub(r'/[Nn]=[^/]*$', '/', sub)]        # sizes differ between tiers: fall back to the family
        for cand in cands:
            hit = [o for o in obs if cand in o['oid'] and not o.get('twin')]
            if hit:
                t = dict(hit[0])
                t['oid'] = hit[0]['oid'] + '  [twin:%s]' % twin
                t['twin'] = twin
                out.append(t)
                break
        else:
            raise symx.HarnessError('no obligation matches twin pick %r' % sub)
    return out


def make_forkmode(obs, subs):
    """Stub guard: the same obligation with Python's own min/max (forking) instead of the ITE stubs; same verdict required."""
    import re
    out = []
    for sub in subs:
        for cand in (sub, re.sub(r'/[Nn]=[^/]*$', '/', sub)):
            hit = [o for o in obs if cand in o['oid'] and not o.get('twin')]
            if hit:
                t = dict(hit[0])
                t['oid'] = hit[0]['oid'] + '  [fork-mode]'
                t['forkmode'] = True
                out.append(t)
                break
    return out


def prop_module(prop):
    return importlib.import_module('vf.props.%s' % prop.lower())


def build_body(o):
    mod = prop_module(o['prop'])
    return getattr(mod, 'h_' + o['harness'])(**o['params'])


def _where(exc):
    """innermost rtamt frame of an exception -> 'file.py:function'"""
    tb = exc.__traceback__
    best = None
    while tb is not None:
        fn = tb.tb_frame.f_code.co_filename
        if '/rtamt/' in fn and '/antlr4/' not in fn:
            best = '%s:%s' % (os.path.basename(fn), tb.tb_frame.f_code.co_name)
        tb = tb.tb_next
    return best or '?'


def exc_kind(exc):
    return 'exception:%s@%s' % (type(exc).__name__, _where(exc))


def _cond_term(c):
    if isinstance(c, symx.SymBool):
        return c.t
    if isinstance(c, bool):
        return z3.BoolVal(c)
    return c


def _cond_bool(c):
    if isinstance(c, symx.SymBool):
        raise symx.HarnessError('symbolic condition in concrete run')
    return bool(c)


def _num(v):
    """JSON-able rendering of a concrete observed value"""
    try:
        if isinstance(v, (list, tuple)):
            return [_num(x) for x in v]
        if isinstance(v, bool) or v is None or isinstance(v, str):
            return v
        f = float(v)
        if f != f:
            return 'nan'
        if f in (symx.INF, -symx.INF):
            return 'inf' if f > 0 else '-inf'
        return f
    except Exception:
        return repr(v)


def concrete_verdict(body, values, prefer=None):
    """Replay on the real code with plain numbers.  Returns (failed, kind, detail, observed).
    prefer: label of the assertion the solver refuted - if it also fails concretely it is the one reported (a model may break
    several assertions at once; reporting the first would let a listed known finding mask a new violation)."""
    last = None
    for use_fr in (False, True):
        st, val, env = symx.run_concrete(body, values, use_fr)
        obs = [[l, _num(v)] for l, v in env.observed]
        if st == 'raised':
            return True, exc_kind(val), '%s: %s' % (type(val).__name__, val), obs, use_fr
        if st == 'ok':
            failing = [label for label, cond in val if not _cond_bool(cond)]
            if failing:
                label = prefer if prefer in failing else failing[0]
                return True, 'mismatch:' + label.split('@')[0], label, obs, use_fr
        last = (False, st, str(val) if st == 'abort' else '', obs, use_fr)
    return last


def decide(o):
    """Explore one obligation; executed in a worker process."""
    t0 = time.time()
    res = {'oid': o['oid'], 'prop': o['prop'], 'harness': o['harness'], 'params': o['params'],
           'verdict': 'holds', 'fail': [], 'paths': 0, 'decisions': 0, 'queries': 0, 'solver_s': 0.0,
           'aborted': {}, 'validated': 0, 'asserts': 0, 'ok_paths': 0, 'raised_paths': 0,
           'unconfirmed': [], 'second_solver': {}}
    from . import refsem, refct
    try:
        refsem.TWIN = refct.TWIN = o.get('twin')
        body = build_body(o)
        symx.unpatch_rtamt()
        symx.patch_rtamt(minmax=not o.get('forkmode'))
        seen = {}
        state = {'n': 0}
        expect = o.get('expect')

        def candidate(pr, kind, label, extra):
            if kind in seen:
                return
            m = symx.nice_model(pr.ctx, extra)
            if m is None:
                raise Inconclusive('no model for a sat query')
            vals = symx.model_values(pr.ctx, m)
            failed, ckind, detail, obs, use_fr = concrete_verdict(body, vals, label)
            if not failed and getattr(body, 'uf', False):
                # uninterpreted functions: the solver's interpretation of usqrt.. is arbitrary; any concrete
                # failing run is a real failure, so try a few generic value sets too
                for i in range(1, 6):
                    alt = {n: ([0, str(2 + ((j * 3 + i * 5) % 11) * 0.5 + 0.25 * i)] if isinstance(v, list) else v)
                           for j, (n, v) in enumerate(sorted(vals.items()))}
                    failed, ckind, detail, obs, use_fr = concrete_verdict(body, alt)
                    if failed:
                        vals = alt
                        break
            if failed:
                seen[kind] = True
                res['fail'].append({'kind': ckind, 'sym_kind': kind, 'detail': detail, 'values': vals,
                                    'observed': obs, 'use_fractions': use_fr})
            else:
                res['unconfirmed'].append({'kind': kind, 'label': label, 'values': vals, 'observed': obs})
                seen[kind] = False

        def on_path(pr):
            state['n'] += 1
            if pr.kind == 'abort':
                return
            if pr.kind == 'raised':
                res['raised_paths'] += 1
                candidate(pr, exc_kind(pr.value), str(pr.value), z3.BoolVal(True))
                return
            res['ok_paths'] += 1
            for label, cond in pr.value:
                res['asserts'] += 1
                if label.startswith('crosshair'):
                    res.setdefault('xhair', []).append(label.split(' ')[0])
                t = z3.simplify(_cond_term(cond))
                if z3.is_true(t):
                    continue
                is_sat = z3.is_false(t) or pr.ctx.check(z3.Not(t)) == z3.sat
                if o.get('recheck') and state.get('rechecked', 0) < o['recheck']:
                    state['rechecked'] = state.get('rechecked', 0) + 1
                    second_solver(pr.ctx, z3.Not(t), 'sat' if is_sat else 'unsat', res['second_solver'])
                if is_sat:
                    candidate(pr, 'mismatch:' + label.split('@')[0], label, z3.Not(t))
            # concolic consistency: symbolic observations under a model == concrete run
            if res['validated'] < o.get('validate', 1) and pr.env.observed and not getattr(body, 'uf', False):
                m = symx.nice_model(pr.ctx, z3.BoolVal(True))
                if m is not None:
                    vals = symx.model_values(pr.ctx, m)
                    st, val, cenv = symx.run_concrete(body, vals)
                    if st == 'ok':
                        _compare_observed(pr.env.observed, cenv.observed, m)
                        res['validated'] += 1

        def on_path_names(pr, _orig=on_path):
            if 'names' not in state and pr.kind != 'abort':
                state['names'] = {n: isinstance(sv, symx.Sym) for n, sv in pr.ctx.inputs.items()}
            _orig(pr)

        with symx.wall_cap(o.get('wall', 120)):
            summ = symx.explore(body, max_paths=o.get('max_paths', 5000), on_path=on_path_names)
            if o.get('sweep') and not res['fail'] and state.get('names'):
                # auxiliary guard, not the deciding step: plain-float runs on plateau data (few distinct small integers, so that values
                # repeat and stay unchanged over consecutive samples).  Behaviour that hangs on the IDENTITY of float objects (`a is b`
                # caches) or on exact repetition cannot be seen through proxies that build a new term for every result.
                srng = random.Random(o['oid'])
                for _ in range(o['sweep']):
                    vals = {n: ([0, str(srng.choice((0, 0, 1, 2, 3, 5)))] if num else srng.random() < 0.5) for n, num in state['names'].items()}
                    failed, ckind, detail, obs, use_fr = concrete_verdict(body, vals)
                    if failed:
                        res['fail'].append({'kind': ckind, 'sym_kind': 'plateau-sweep', 'detail': detail, 'values': vals, 'observed': obs, 'use_fractions': use_fr})
                        break
                res['sweep_runs'] = o['sweep']
        res.update(summ)
        if res['fail']:
            res['verdict'] = 'violated'
        elif res['unconfirmed']:
            res['verdict'] = 'inconclusive'
            res['why'] = 'solver model does not replay on the real code: %s' % res['unconfirmed'][0]['kind']
        elif res['ok_paths'] + res['raised_paths'] == 0:
            arith = ('inf-inf', 'division by zero', 'inf*0', 'inf/inf', 'nan', 'inf in ')
            if res['aborted'] and all(k.startswith(arith) for k in res['aborted']):
                # the formula is undefined on every path (e.g. inf-inf at the trace boundary): nothing to claim
                res['verdict'] = 'outside'
                res['why'] = 'arithmetic domain error on every path %s' % res['aborted']
            else:
                res['verdict'] = 'inconclusive'
                res['why'] = 'vacuous: every path aborted %s' % res['aborted']
    except Inconclusive as e:
        res['verdict'] = 'inconclusive'
        res['why'] = str(e)
    except BaseException as e:
        res['verdict'] = 'inconclusive'
        res['why'] = 'harness error: %s: %s\n%s' % (type(e).__name__, e, traceback.format_exc()[-1500:])
    finally:
        symx.CTX = None
        refsem.TWIN = refct.TWIN = None
        if o.get('forkmode'):
            symx.unpatch_rtamt()
    res['wall_s'] = time.time() - t0
    res['twin'] = o.get('twin')
    res['forkmode'] = bool(o.get('forkmode'))
    return res


SECOND_SOLVERS = (('z3-4.8.12', ['/usr/bin/z3', '-T:30']), ('cvc5-1.0.3', ['cvc5', '--tlimit=30000']))


def second_solver(ctx, negated, expect, stats):
    """Re-decide one discharged query with the two other solver builds on this image (SMT-LIB2 dump of the path
    condition plus the negated assertion).  A disagreement, or an `(error` line, makes the obligation inconclusive."""
    import subprocess
    import tempfile
    s = ctx.solver
    s.push()
    try:
        s.add(negated)
        txt = '(set-logic ALL)\n' + s.to_smt2()
    finally:
        s.pop()
    with tempfile.NamedTemporaryFile('w', suffix='.smt2', delete=False) as f:
        f.write(txt)
        path = f.name
    try:
        for name, cmd in SECOND_SOLVERS:
            try:
                out = subprocess.run(cmd + [path], capture_output=True, text=True, timeout=60).stdout
            except Exception:
                out = 'timeout'
            if '(error' in out:
                raise Inconclusive('second solver %s reports an error on a dumped query: %s' % (name, out[:200]))
            ans = (out.split() or ['none'])[0]
            key = '%s:%s' % (name, 'agree' if ans == expect else ('no-answer' if ans not in ('sat', 'unsat') else 'DISAGREE'))
            stats[key] = stats.get(key, 0) + 1
            if ans in ('sat', 'unsat') and ans != expect:
                raise Inconclusive('second solver %s answers %s where z3 %s answered %s' % (name, ans, z3.get_version_string(), expect))
    finally:
        os.unlink(path)


def _approx(a, b):
    if a == b:
        return True
    try:
        return abs(a - b) <= 1e-9 * max(1.0, abs(a), abs(b))
    except Exception:
        return False


def _flatten_obs(v, out):
    if isinstance(v, (list, tuple)):
        for x in v:
            _flatten_obs(x, out)
    else:
        out.append(v)


def _compare_observed(sym_obs, conc_obs, model):
    if [l for l, _ in sym_obs] != [l for l, _ in conc_obs]:
        raise Inconclusive('concolic check: observation labels differ')
    for (l, sv), (_, cv) in zip(sym_obs, conc_obs):
        a, b = [], []
        _flatten_obs(sv, a)
        _flatten_obs(cv, b)
        if len(a) != len(b):
            raise Inconclusive('concolic check: shape differs at %s' % l)
        for x, y in zip(a, b):
            if isinstance(x, symx.Sym):
                k = x.k if isinstance(x.k, int) else model.eval(x.k, model_completion=True).as_long()
                if k != 0:
                    xv = symx.INF * k
                else:
                    r = model.eval(x.r, model_completion=True)
                    if z3.is_algebraic_value(r):
                        r = r.approx(20)
                    xv = r.numerator_as_long() / r.denominator_as_long()
            else:
                xv = x
            if isinstance(xv, (int, float)) and isinstance(y, (int, float)) or hasattr(y, 'numerator'):
                if not _approx(float(xv), float(y)):
                    raise Inconclusive('concolic check: symbolic run and concrete run disagree at %s: %r vs %r'
                                       % (l, xv, y))


# --------------------------------------------------------------------------
# known findings
# --------------------------------------------------------------------------
def _count(xs):
    out = {}
    for x in xs:
        out[x] = out.get(x, 0) + 1
    return out


def _sum_dicts(ds):
    out = {}
    for d in ds:
        for k, v in d.items():
            out[k] = out.get(k, 0) + v
    return out


def load_known():
    p = os.path.join(ROOT, 'known_findings.jsonl')
    out = []
    if os.path.exists(p):
        for line in open(p):
            line = line.strip()
            if line and not line.startswith('#') and not line.startswith('fixed:'):
                out.append(json.loads(line))
    return out


def match_known(known, prop, oid, kind):
    for k in known:
        if k.get('status', 'open') != 'open':
            continue                                   # a fixed entry suppresses nothing
        if k['property'] != prop:
            continue
        if fnmatch.fnmatchcase(oid, k['oid']) and fnmatch.fnmatchcase(kind, k['kind']):
            return k
    return None


# --------------------------------------------------------------------------
# runner
# --------------------------------------------------------------------------
_OBS = []


def _work(i):
    return decide(_OBS[i])


def _init_worker():
    import logging
    logging.disable(logging.WARNING)
    try:
        # a changed rtamt can turn a 2-sample window into a 2-million-sample one: let the obligation fail with MemoryError (reported
        # as inconclusive / as the exception it is) instead of taking the machine down
        import resource
        lim = int(os.environ.get('VERIF_WORKER_MEM_GB', '6')) << 30
        resource.setrlimit(resource.RLIMIT_AS, (lim, lim))
    except Exception:
        pass
    try:
        sys.stdout = open(os.devnull, 'w')     # rtamt prints warnings
    except Exception:
        pass


def run_property(prop, tier, seed, jobs=None, only=None, verbose=False):
    global _OBS
    t0 = time.time()
    mod = prop_module(prop)
    rng = random.Random(seed)
    obs = mod.obligations(tier, rng)
    if only:
        obs = [o for o in obs if fnmatch.fnmatchcase(o['oid'], only)]
    ids = [o['oid'] for o in obs]
    if len(set(ids)) != len(ids):
        dup = [i for i in set(ids) if ids.count(i) > 1][:3]
        raise symx.HarnessError('duplicate obligation ids %s' % dup)
    if tier == 'thorough':
        symx.SOLVER_TIMEOUT_MS = 300000
        for o in obs:
            o['wall'] = max(o.get('wall', 120), 900)         # thorough: larger sizes, same per-obligation path caps
    n_re = 12 if tier == 'quick' else 60
    plain = [o for o in obs if not o.get('twin') and not o.get('forkmode')]
    for o in rng.sample(plain, min(n_re, len(plain))):
        o['recheck'] = 3            # queries per obligation handed to the second solvers
    _OBS = obs
    jobs = jobs or int(os.environ.get('VERIF_JOBS', '0')) or min(16, os.cpu_count() or 4)
    results = []
    if jobs == 1 or len(obs) <= 1:
        _init_logging()
        for i in range(len(obs)):
            results.append(_work(i))
    else:
        import concurrent.futures as cf
        ctx = multiprocessing.get_context('fork')
        order = sorted(range(len(obs)), key=lambda i: -obs[i].get('cost', 1))
        done = set()
        # ProcessPoolExecutor, not multiprocessing.Pool: when a worker process dies (killed, out of memory) the pool reports it instead
        # of waiting for ever; the obligations it had not answered are inconclusive and the pool is rebuilt for the rest
        pending = list(order)
        while pending:
            died = False
            with cf.ProcessPoolExecutor(max_workers=jobs, mp_context=ctx, initializer=_init_worker) as pool:
                futs = {pool.submit(_work, i): i for i in pending}
                try:
                    for fu in cf.as_completed(futs):
                        r = fu.result()
                        done.add(futs[fu])
                        results.append(r)
                        if verbose:
                            sys.stderr.write('%-12s %6.1fs %5d paths  %s\n' % (r['verdict'], r['wall_s'], r['paths'], r['oid']))
                except cf.process.BrokenProcessPool:
                    died = True
            pending = [i for i in pending if i not in done]
            if died and pending:
                # the obligation that killed its worker cannot be told from the ones that were queued behind it: run the rest one by one,
                # each in a pool of its own
                for i in pending:
                    try:
                        with cf.ProcessPoolExecutor(max_workers=1, mp_context=ctx, initializer=_init_worker) as one:
                            r = one.submit(_work, i).result()
                    except cf.process.BrokenProcessPool:
                        o = obs[i]
                        r = {'oid': o['oid'], 'prop': o['prop'], 'harness': o['harness'], 'params': o['params'], 'verdict': 'inconclusive',
                             'why': 'the worker process died (killed or out of memory)', 'fail': [], 'paths': 0, 'decisions': 0, 'queries': 0,
                             'solver_s': 0.0, 'aborted': {}, 'validated': 0, 'asserts': 0, 'ok_paths': 0, 'raised_paths': 0, 'unconfirmed': [],
                             'second_solver': {}, 'wall_s': 0.0, 'twin': o.get('twin'), 'forkmode': bool(o.get('forkmode'))}
                    results.append(r)
                pending = []
    results.sort(key=lambda r: ids.index(r['oid']))
    return finish(prop, tier, seed, mod, results, time.time() - t0)


def _init_logging():
    import logging
    logging.disable(logging.WARNING)


def _replay_path(prop, oid, kind):
    h = hashlib.sha1((oid + '|' + kind).encode()).hexdigest()[:12]
    d = os.path.join(OUT, 'replays', prop)
    os.makedirs(d, exist_ok=True)
    return os.path.join(d, h + '.json')


def finish(prop, tier, seed, mod, results, wall):
    known = load_known()
    lines = []
    n_viol = 0
    n_known = 0
    n_inc = 0
    known_hit = {}
    twins = [r for r in results if r.get('twin')]
    results = [r for r in results if not r.get('twin')]
    twins_bad = [r for r in twins if r['verdict'] != 'violated']
    for r in twins_bad:
        lines.append('INCONCLUSIVE property=%s vacuity twin NOT refuted (%s): %s' % (prop, r['verdict'], r['oid']))
    for r in results:
        expect = None
        if r['verdict'] == 'violated':
            seen_kinds = set()
            for f in r['fail']:
                if f['kind'] in seen_kinds:
                    continue
                seen_kinds.add(f['kind'])
                k = match_known(known, prop, r['oid'], f['kind'])
                if k is not None:
                    n_known += 1
                    known_hit.setdefault(k['id'], []).append(r['oid'])
                    f['known'] = k['id']
                else:
                    n_viol += 1
                    p = _replay_path(prop, r['oid'], f['kind'])
                    json.dump({'property': prop, 'oid': r['oid'], 'harness': r['harness'], 'params': r['params'],
                               'kind': f['kind'], 'detail': f['detail'], 'values': f['values'],
                               'use_fractions': f['use_fractions'], 'observed': f['observed']},
                              open(p, 'w'), indent=1)
                    lines.append('VIOLATION property=%s replay=%s   # %s : %s' % (prop, p, r['oid'], f['kind']))
        elif r['verdict'] == 'inconclusive':
            n_inc += 1
            lines.append('INCONCLUSIVE property=%s %s : %s' % (prop, r['oid'], r.get('why', '')[:400]))
    for k in known:
        if k['property'] == prop and k.get('status', 'open') == 'open' and k['id'] in known_hit:
            lines.insert(0, 'KNOWN-FINDING: property=%s %s [%s; %d obligation(s)]'
                         % (prop, k['what'], k['id'], len(known_hit[k['id']])))
    # vacuity guard: obligations flagged must_fail (deliberately wrong oracle) have to be violated
    guards_bad = []
    # evidence
    holds = [r for r in results if r['verdict'] == 'holds']
    tot = lambda key: sum(r.get(key, 0) for r in results)
    samples = []
    big = sorted(results, key=lambda r: -r.get('paths', 0))[:2]
    for r in results[:2] + big + [r for r in results if r['verdict'] == 'violated'][:2]:
        s = {'obligation': r['oid'], 'harness': r['harness'], 'params': r['params'], 'verdict': r['verdict'],
             'paths': r['paths'], 'queries': r['queries'], 'assertions': r['asserts']}
        if r['fail']:
            s['counterexample'] = {'kind': r['fail'][0]['kind'], 'values': r['fail'][0]['values'],
                                   'known_finding': r['fail'][0].get('known')}
        samples.append(s)
    aborted = {}
    for r in results:
        for k, v in r.get('aborted', {}).items():
            aborted[k] = aborted.get(k, 0) + v
    info = getattr(mod, 'INFO', {})
    ev = {
        'property_id': prop, 'tier': tier, 'seed': seed, 'level': 'model_checking',
        'coverage': {
            'states': tot('paths'), 'transitions': max(tot('decisions'), tot('paths')),
            'traces_validated_against_impl': tot('validated'),
            'samples': samples,
            'obligations': len(results), 'discharged': len(holds),
            'obligations_violated_known_finding': len([r for r in results if r['verdict'] == 'violated'
                                                       and all('known' in f for f in r['fail'])]),
            'obligations_inconclusive': n_inc,
            'vacuity_twins_refuted': '%d of %d (deliberately wrong oracles that must be refuted with a replaying model)' % (len(twins) - len(twins_bad), len(twins)),
            'second_engine_crosshair': _count([x for r in results for x in r.get('xhair', [])]),
            'second_solver_rechecks': _sum_dicts([r.get('second_solver', {}) for r in results]),
            'fork_mode_twins_agree': len([r for r in results if r.get('forkmode') and r['verdict'] == 'holds']),
            'plateau_sweep_runs': '%d plain-float runs on repeating small-integer data over %d obligations (auxiliary guard for identity-based behaviour; not the deciding step)' % (sum(r.get('sweep_runs', 0) for r in results), len([r for r in results if r.get('sweep_runs')])),
            'obligations_outside_claim_arithmetic_domain': len([r for r in results if r['verdict'] == 'outside']),
            'assertions_decided': tot('asserts'),
            'solver_queries': tot('queries'), 'solver_time_s': round(tot('solver_s'), 2),
            'aborted_paths_outside_claim': aborted,
            'functions_encoded': info.get('functions', []),
            'bounds': info.get('bounds', {}).get(tier, info.get('bounds', {})),
            'outside_bounds': info.get('outside', ''),
            'stubs': symx.STUBS + info.get('stubs', []),
            'solver': 'z3 %s (python API), per-path incremental solver' % z3.get_version_string(),
            'exhaustive': False,
            'explanation': info.get('explanation', ''),
        },
        'assumptions': info.get('assumptions', []) + [
            'sample values are extended reals, not IEEE doubles (rounding of + - * / is outside the claim)',
            'min/max/float/math are rebound in rtamt.* namespaces to term-building stubs (validated concolically)'],
        'wall_s': round(wall, 2), 'violations': n_viol, 'known_findings': n_known,
    }
    os.makedirs(os.path.join(OUT, 'evidence'), exist_ok=True)
    json.dump(ev, open(os.path.join(OUT, 'evidence', prop + '.json'), 'w'), indent=1, default=str)
    for l in lines:
        print(l)
    print('%s tier=%s seed=%d: %d obligations, %d hold, %d violated (%d known-finding hits, %d new), %d inconclusive; '
          '%d paths, %d queries, solver %.1fs, wall %.1fs'
          % (prop, tier, seed, len(results), len(holds), len([r for r in results if r['verdict'] == 'violated']),
             n_known, n_viol, n_inc, tot('paths'), tot('queries'), tot('solver_s'), wall))
    if n_viol:
        return EXIT_VIOLATION
    if n_inc or not holds or twins_bad:
        return EXIT_HARNESS
    return EXIT_OK


def replay_file(path):
    d = json.load(open(path))
    o = {'prop': d['property'], 'harness': d['harness'], 'params': d['params']}
    import logging
    logging.disable(logging.WARNING)
    body = build_body(o)
    failed, kind, detail, obs, use_fr = concrete_verdict(body, d['values'], d.get('detail'))
    print(json.dumps({'oid': d['oid'], 'params': d['params'], 'values': d['values'], 'observed': obs}, indent=1))
    if failed:
        print('VIOLATION property=%s replay=%s   # reproduced: %s (%s)' % (d['property'], path, kind, detail))
        return EXIT_VIOLATION
    print('replay does not fail on the current tree (%s)' % kind)
    return EXIT_OK
