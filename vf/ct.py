"""Dense-time harness helpers."""
import rtamt

KINDS = {
    'combined': lambda **kw: rtamt.StlDenseTimeSpecification(**kw),
    'offline': lambda **kw: rtamt.StlDenseTimeOfflineSpecification(**kw),
    'online': lambda **kw: rtamt.StlDenseTimeOnlineSpecification(**kw),
}


def pick_kind(kind, spec_text):
    """'offline~' / 'online~': the caller needs an offline- (online-) capable specification and does not care which class provides it;
    a third of the specification texts (chosen by a hash of the text, so deterministically) get the class that has both monitors,
    so that the wrapper code of both classes is exercised by the same families"""
    if kind.endswith('~'):
        import zlib
        return 'combined' if zlib.crc32(spec_text.encode()) % 3 == 0 else kind[:-1]
    return kind


def make_spec(kind, spec_text, vars_, pastify=False, unit=None, consts=(), io=None, **kw):
    kind = pick_kind(kind, spec_text)
    s = KINDS[kind](**kw)
    for v in vars_:
        s.declare_var(v, 'float')
    for (n, ty, val) in consts:
        s.declare_const(n, ty, val)
    if io:
        for v, t in io.items():
            for t1 in t.split('>'):          # 'input>output': declared one way first and corrected afterwards; the last call counts
                if t1 == 'redeclare':
                    s.declare_var(v, 'float')      # declared again without an io qualifier: back to the default (output)
                else:
                    s.set_var_io_type(v, t1)
    if unit is not None:
        s.unit = unit
    s.spec = spec_text
    s.parse()
    if pastify:
        s.pastify()
        if pastify == 'twice':
            s.pastify()
    return s


def signal(env, name, n, start='zero', ext=False, grid=None):
    """n samples [[t_i, v_i]] with symbolic, strictly increasing time stamps.
    start: 'zero' (t_0 = 0) | 'free' (t_0 >= 0).  grid: concrete list of times instead."""
    A = env.A
    mk = env.ext if ext else env.real
    if grid is not None:
        return [[grid[i], mk('%s%d' % (name, i))] for i in range(n)]
    ts = [env.real('t_%s%d' % (name, i)) for i in range(n)]
    env.assume(A.eq(ts[0], 0) if start == 'zero' else A.le(0, ts[0]))
    for i in range(1, n):
        env.assume(A.lt(ts[i - 1], ts[i]))
    return [[ts[i], mk('%s%d' % (name, i))] for i in range(n)]


def wellformed(A, out, label='out'):
    """output representation invariant: a list of [time, value] pairs with non-decreasing times"""
    res = [('%s-shape' % label, A.bool(isinstance(out, list) and all(len(p) == 2 for p in out)))]
    for i in range(len(out) - 1):
        res.append(('%s-monotone@%d' % (label, i), A.le(out[i][0], out[i + 1][0])))
    return res


def run_pool_case(env, case, mode='online~', check=()):
    """feed one case of vf/poolct.py to a dense online monitor; returns the list of per-update outputs and the assertions asked for in
    `check`: 'shape' (every update returns a list of [time, value] pairs), 'pure' (the caller's batches are untouched afterwards),
    'get_value' (get_value(v) after an update is the batch supplied for v)"""
    from . import refsem
    from .refsem import text, variables
    A = env.A
    f, grids, parts = case
    f = refsem.T(f)
    vs = sorted(variables(f))
    s = make_spec(mode, 'out = ' + text(f), vs)
    sigs = {v: signal(env, v, len(g), 'zero', grid=g) for v, g in zip(vs, grids)}
    outs, res = [], []
    for u, part in enumerate(parts):
        batch = [[v, [list(sigs[v][i]) for i in part if i < len(sigs[v])]] for v in vs]
        keep = [[v, [list(p) for p in b]] for v, b in batch]
        o = s.update(*batch)
        outs.append(o)
        if 'shape' in check:
            res.append(('update%d-shape' % u, A.bool(isinstance(o, list) and all(isinstance(p, (list, tuple)) and len(p) == 2 for p in o))))
        if 'pure' in check:
            ok = len(batch) == len(keep) and all(b[0] == k[0] and len(b[1]) == len(k[1]) for b, k in zip(batch, keep))
            res.append(('update%d-batches-same-length' % u, A.bool(ok)))
            if ok:
                for b, k in zip(batch, keep):
                    for i, (p, q) in enumerate(zip(b[1], k[1])):
                        res.append(('update%d-%s[%d]-untouched' % (u, b[0], i), A.And(A.eq(p[0], q[0]), A.eq(p[1], q[1]))))
        if 'get_value' in check:
            for v, b in keep:
                got = s.get_value(v)
                same = isinstance(got, list) and len(got) == len(b)
                res.append(('update%d-get_value-%s-length' % (u, v), A.bool(same)))
                if same:
                    for i, (p, q) in enumerate(zip(got, b)):
                        res.append(('update%d-get_value-%s[%d]' % (u, v, i), A.And(A.eq(p[0], q[0]), A.eq(p[1], q[1]))))
    return outs, res
