"""Dense-time harness helpers."""
import rtamt

KINDS = {
    'combined': lambda **kw: rtamt.StlDenseTimeSpecification(**kw),
    'offline': lambda **kw: rtamt.StlDenseTimeOfflineSpecification(**kw),
    'online': lambda **kw: rtamt.StlDenseTimeOnlineSpecification(**kw),
}


def pick_kind(kind, spec_text):
    """'offline~' / 'online~': the caller needs an offline- (online-) capable specification and does not care which class provides it;
    a third of the specification texts (chosen by a hash of the text, so deterministically) get the class that has both monitors,
    so that the wrapper code of both classes is exercised by the same families"""
    if kind.endswith('~'):
        import zlib
        return 'combined' if zlib.crc32(spec_text.encode()) % 3 == 0 else kind[:-1]
    return kind


def make_spec(kind, spec_text, vars_, pastify=False, unit=None, consts=(), io=None, **kw):
    kind = pick_kind(kind, spec_text)
    s = KINDS[kind](**kw)
    for v in vars_:
        s.declare_var(v, 'float')
    for (n, ty, val) in consts:
        s.declare_const(n, ty, val)
    if io:
        for v, t in io.items():
            for t1 in t.split('>'):          # 'input>output': declared one way first and corrected afterwards; the last call counts
                s.set_var_io_type(v, t1)
    if unit is not None:
        s.unit = unit
    s.spec = spec_text
    s.parse()
    if pastify:
        s.pastify()
    return s


def signal(env, name, n, start='zero', ext=False, grid=None):
    """n samples [[t_i, v_i]] with symbolic, strictly increasing time stamps.
    start: 'zero' (t_0 = 0) | 'free' (t_0 >= 0).  grid: concrete list of times instead."""
    A = env.A
    mk = env.ext if ext else env.real
    if grid is not None:
        return [[grid[i], mk('%s%d' % (name, i))] for i in range(n)]
    ts = [env.real('t_%s%d' % (name, i)) for i in range(n)]
    env.assume(A.eq(ts[0], 0) if start == 'zero' else A.le(0, ts[0]))
    for i in range(1, n):
        env.assume(A.lt(ts[i - 1], ts[i]))
    return [[ts[i], mk('%s%d' % (name, i))] for i in range(n)]


def wellformed(A, out, label='out'):
    """output representation invariant: a list of [time, value] pairs with non-decreasing times"""
    res = [('%s-shape' % label, A.bool(isinstance(out, list) and all(len(p) == 2 for p in out)))]
    for i in range(len(out) - 1):
        res.append(('%s-monotone@%d' % (label, i), A.le(out[i][0], out[i + 1][0])))
    return res
