"""Reference recogniser for the specification language, regenerated on every run from the ANTLR grammar files of the tree under
test (rtamt/antlr/grammar/tl/*.g4): a small .g4 reader, a maximal-munch lexer that works on lists of character codes which may
be symbolic (vf.symx.Sym: every comparison with a symbolic code forks the path), and an Earley recogniser on token names.

It shares nothing with the generated recogniser rtamt uses (rtamt/antlr/parser/stl/*.py + the antlr4 runtime): that one is the
implementation, this one is the oracle of C14 ("succeeds only on texts derivable from the grammar")."""
import os
import re


class G4Error(Exception):
    pass


# ----------------------------------------------------------------------------------------------------------------------
# .g4 tokenizer
# ----------------------------------------------------------------------------------------------------------------------
_TOK = re.compile(r"""
    (?P<ws>\s+)
  | (?P<lc>//[^\n]*)
  | (?P<bc>/\*.*?\*/)
  | (?P<lit>'(?:\\.|[^'\\])*')
  | (?P<set>\[(?:\\.|[^\]\\])*\])
  | (?P<arrow>->)
  | (?P<id>[A-Za-z_][A-Za-z_0-9]*)
  | (?P<sym>[:;|()?*+~.#={},@])
""", re.S | re.X)


def _tokens(src):
    pos = 0
    out = []
    while pos < len(src):
        m = _TOK.match(src, pos)
        if not m:
            raise G4Error('cannot read grammar at %r' % src[pos:pos + 30])
        pos = m.end()
        k = m.lastgroup
        if k in ('ws', 'lc', 'bc'):
            continue
        out.append((k, m.group(k)))
    return out


def _unescape(s):
    """body of a literal or of a char set -> list of (code, escaped?)"""
    out = []
    i = 0
    while i < len(s):
        c = s[i]
        if c == '\\':
            n = s[i + 1]
            if n == 'u':
                out.append((int(s[i + 2:i + 6], 16), True))
                i += 6
                continue
            out.append((ord({'n': '\n', 't': '\t', 'r': '\r', 'f': '\f', 'b': '\b'}.get(n, n)), True))
            i += 2
            continue
        out.append((ord(c), False))
        i += 1
    return out


def _charset(body):
    items = _unescape(body)
    ranges = []
    i = 0
    while i < len(items):
        lo = items[i][0]
        if i + 2 < len(items) and items[i + 1] == (ord('-'), False):
            ranges.append((lo, items[i + 2][0]))
            i += 3
        else:
            ranges.append((lo, lo))
            i += 1
    return ranges


# ----------------------------------------------------------------------------------------------------------------------
# rule bodies -> trees
#   ('lit', [codes]) ('set', [(lo,hi)], negated) ('any',) ('ref', name) ('seq', [..]) ('alt', [..]) ('rep', node, min, unbounded, greedy)
# ----------------------------------------------------------------------------------------------------------------------
class _P(object):
    def __init__(self, toks):
        self.t = toks
        self.i = 0

    def peek(self):
        return self.t[self.i] if self.i < len(self.t) else (None, None)

    def next(self):
        x = self.t[self.i]
        self.i += 1
        return x

    def alts(self, stop):
        alts = [self.seq(stop)]
        while self.peek()[1] == '|':
            self.next()
            alts.append(self.seq(stop))
        return alts[0] if len(alts) == 1 else ('alt', alts)

    def seq(self, stop):
        items = []
        while True:
            k, v = self.peek()
            if v is None or v in stop or v == '|' or k == 'arrow':
                break
            if v == '#':                  # alternative label
                self.next()
                self.next()
                continue
            items.append(self.element(stop))
        return items[0] if len(items) == 1 else ('seq', items)

    def atom(self, stop):
        k, v = self.next()
        if k == 'lit':
            return ('lit', [c for c, _ in _unescape(v[1:-1])])
        if k == 'set':
            return ('set', _charset(v[1:-1]), False)
        if v == '~':
            inner = self.atom(stop)
            if inner[0] == 'set':
                return ('set', inner[1], not inner[2])
            if inner[0] == 'lit' and len(inner[1]) == 1:
                return ('set', [(inner[1][0], inner[1][0])], True)
            raise G4Error('~ of a non-set')
        if v == '.':
            return ('any',)
        if k == 'id':
            return ('ref', v)
        if v == '(':
            node = self.alts((')',))
            if self.next()[1] != ')':
                raise G4Error('missing )')
            return node
        if v == '@':
            return ('lit', [ord('@')])
        raise G4Error('unexpected %r in a rule body' % v)

    def element(self, stop):
        node = self.atom(stop)
        k2, v2 = self.peek()
        if v2 in ('?', '*', '+'):
            self.next()
            greedy = True
            if self.peek()[1] == '?':
                self.next()
                greedy = False
            node = ('rep', node, 1 if v2 == '+' else 0, v2 != '?', greedy)
        return node


def _rules(src):
    """-> (kind, name, [(rule name, fragment?, tree, command)], imports)"""
    toks = _tokens(src)
    p = _P(toks)
    kind = p.next()[1]                    # lexer | parser
    if p.next()[1] != 'grammar':
        raise G4Error('not a grammar file')
    name = p.next()[1]
    p.next()                              # ;
    rules = []
    imports = []
    while p.peek()[1] is not None:
        k, v = p.peek()
        if v == 'options':
            while p.next()[1] != '}':
                pass
            continue
        if v == 'import':
            p.next()
            imports.append(p.next()[1])
            p.next()
            continue
        frag = False
        if v == 'fragment':
            p.next()
            frag = True
        rname = p.next()[1]
        if p.next()[1] != ':':
            raise G4Error('rule %s: missing :' % rname)
        tree = p.alts((';',))
        cmd = None
        if p.peek()[0] == 'arrow':
            p.next()
            cmd = p.next()[1]
            while p.peek()[1] != ';':
                p.next()
        if p.next()[1] != ';':
            raise G4Error('rule %s: missing ;' % rname)
        rules.append((rname, frag, tree, cmd))
    return kind, name, rules, imports


def _has_nongreedy(tree):
    if tree[0] == 'rep':
        return (not tree[4]) or _has_nongreedy(tree[1])
    if tree[0] in ('seq', 'alt'):
        return any(_has_nongreedy(c) for c in tree[1])
    return False


# ----------------------------------------------------------------------------------------------------------------------
# the grammar object
# ----------------------------------------------------------------------------------------------------------------------
class Grammar(object):
    def __init__(self, repo, parser='StlParser'):
        d = os.path.join(repo, 'rtamt', 'antlr', 'grammar', 'tl')
        self.files = []

        def read(n):
            path = os.path.join(d, n + '.g4')
            self.files.append(path)
            with open(path) as f:
                return _rules(f.read())
        _, _, lrules, _ = read('LtlLexer')
        self.lex = {n: t for n, _, t, _ in lrules}
        self.tokens = [(n, t, cmd, _has_nongreedy(t)) for n, frag, t, cmd in lrules if not frag]
        kind, _, prules, imports = read(parser)
        rules = {}
        for imp in imports:
            for n, _, t, _ in read(imp)[2]:
                rules[n] = t
        for n, _, t, _ in prules:
            rules[n] = t                   # rules of the importing grammar override imported ones
        self.literal_token = {}
        for n, t, cmd, _ in self.tokens:
            if t[0] == 'lit':
                self.literal_token.setdefault(tuple(t[1]), n)
        self.cfg = {}
        self._fresh = 0
        for n, t in rules.items():
            self.cfg[n] = self._bnf(t)
        self.start = 'specification_file'

    # ---- parser rules -> BNF ------------------------------------------------------------------------------------
    def _new(self, prods):
        self._fresh += 1
        n = '_g%d' % self._fresh
        self.cfg[n] = prods
        return n

    def _bnf(self, tree):
        """-> list of productions (tuples of symbols)"""
        if tree[0] == 'alt':
            out = []
            for c in tree[1]:
                out.extend(self._bnf(c))
            return out
        if tree[0] == 'seq':
            return [tuple(self._sym(c) for c in tree[1])]
        return [(self._sym(tree),)]

    def _sym(self, tree):
        k = tree[0]
        if k == 'ref':
            return tree[1]
        if k == 'lit':
            if tuple(tree[1]) not in self.literal_token:
                raise G4Error('literal in a parser rule without a lexer rule')
            return self.literal_token[tuple(tree[1])]
        if k in ('seq', 'alt'):
            return self._new(self._bnf(tree))
        if k == 'rep':
            inner = self._sym(tree[1])
            _, _, mn, unbounded, _ = tree
            if not unbounded:
                return self._new([(), (inner,)])
            n = self._new(None)
            self.cfg[n] = [(), (inner, n)] if mn == 0 else [(inner,), (inner, n)]
            return n
        raise G4Error('unsupported element %r in a parser rule' % (k,))

    # ---- lexer ------------------------------------------------------------------------------------------------------
    def _ends(self, tree, data, pos, memo):
        """set of positions at which `tree` can end when started at pos"""
        key = (id(tree), pos)
        if key in memo:
            return memo[key]
        k = tree[0]
        n = len(data)
        if k == 'lit':
            ok = pos + len(tree[1]) <= n
            if ok:
                for i, code in enumerate(tree[1]):
                    if not (data[pos + i] == code):
                        ok = False
                        break
            r = frozenset([pos + len(tree[1])]) if ok else frozenset()
        elif k == 'set':
            r = frozenset()
            if pos < n:
                c = data[pos]
                inside = False
                for lo, hi in tree[1]:
                    if c >= lo and c <= hi:
                        inside = True
                        break
                if inside != tree[2]:
                    r = frozenset([pos + 1])
        elif k == 'any':
            r = frozenset([pos + 1]) if pos < n else frozenset()
        elif k == 'ref':
            r = self._ends(self.lex[tree[1]], data, pos, memo)
        elif k == 'seq':
            cur = {pos}
            for c in tree[1]:
                nxt = set()
                for p in sorted(cur):
                    nxt |= self._ends(c, data, p, memo)
                cur = nxt
                if not cur:
                    break
            r = frozenset(cur)
        elif k == 'alt':
            s = set()
            for c in tree[1]:
                s |= self._ends(c, data, pos, memo)
            r = frozenset(s)
        elif k == 'rep':
            _, inner, mn, unbounded, _ = tree
            reach = {pos} if mn == 0 else set()
            frontier = {pos}
            first = True
            while frontier:
                nxt = set()
                for p in sorted(frontier):
                    for e in self._ends(inner, data, p, memo):
                        if e > p and e not in reach:
                            nxt.add(e)
                reach |= nxt
                frontier = nxt if unbounded else set()
                first = False
            r = frozenset(reach)
        else:
            raise G4Error(k)
        memo[key] = r
        return r

    def lex_text(self, data):
        """data: list of character codes (ints or symbolic).  -> list of (token name, start, end) without the skipped ones, or
        None when some position starts no token (the text is then not derivable)"""
        out = []
        pos = 0
        n = len(data)
        memo = {}
        while pos < n:
            best = None
            for name, tree, cmd, nongreedy in self.tokens:
                ends = [e for e in self._ends(tree, data, pos, memo) if e > pos]
                if not ends:
                    continue
                e = min(ends) if nongreedy else max(ends)
                if best is None or e > best[1]:
                    best = (name, e, cmd)
            if best is None:
                return None
            if best[2] != 'skip':
                out.append((best[0], pos, best[1]))
            pos = best[1]
        return out

    # ---- Earley recogniser on token names ---------------------------------------------------------------------------
    def derives(self, names):
        toks = list(names) + ['EOF']
        cfg = self.cfg
        nullable = set()
        changed = True
        while changed:
            changed = False
            for a, prods in cfg.items():
                if a not in nullable and any(all(s in nullable for s in p) for p in prods):
                    nullable.add(a)
                    changed = True
        chart = [set() for _ in range(len(toks) + 1)]
        order = [[] for _ in range(len(toks) + 1)]

        def add(i, item):
            if item not in chart[i]:
                chart[i].add(item)
                order[i].append(item)
        for p in cfg[self.start]:
            add(0, (self.start, p, 0, 0))
        for i in range(len(toks) + 1):
            j = 0
            while j < len(order[i]):
                head, prod, dot, origin = order[i][j]
                j += 1
                if dot < len(prod):
                    s = prod[dot]
                    if s in cfg:
                        for p in cfg[s]:
                            add(i, (s, p, 0, i))
                        if s in nullable:
                            add(i, (head, prod, dot + 1, origin))
                    elif i < len(toks) and toks[i] == s:
                        add(i + 1, (head, prod, dot + 1, origin))
                else:
                    for (h2, p2, d2, o2) in list(order[origin]):
                        if d2 < len(p2) and p2[d2] == head:
                            add(i, (h2, p2, d2 + 1, o2))
        return any(h == self.start and d == len(p) and o == 0 for (h, p, d, o) in chart[len(toks)])

    def derivable(self, data):
        """is the text (list of character codes) a sentence of the grammar?  -> (bool, token list or None)"""
        toks = self.lex_text(data)
        if toks is None:
            return False, None
        return self.derives([t[0] for t in toks]), toks
