"""C14 — the parser accepts only the specification language and fails only cleanly (bounded: texts that differ from a
template in up to two characters; interval bounds as symbolic numbers)."""
import fractions
import os

import z3

from .. import refsem, symx
from ..core import ob

INFO = {
    'functions': ['rtamt.syntax.ast.parser.abstract_ast_parser.AbstractAst.parse', 'rtamt.antlr.parser.stl.LtlLexer / StlParser (generated; ATN interpreted by the antlr4 runtime on a symbolic character)',
                  'rtamt.antlr.parser.stl.error.parser_error_listener', 'rtamt.syntax.ast.parser.stl.parser_visitor (visitInterval, visitIntervalTimeLiteral, visitConstantTimeLiteral, all visitExpr*)',
                  'rtamt.syntax.ast.parser.ltl.parser_visitor (visitExprId, visitExprLiteral, declarations)', 'rtamt/antlr/grammar/tl/*.g4 (read on every run: the oracle)'],
    'bounds': {'quick': 'texts obtained from 6 templates (16-45 characters) by REPLACING one character, or INSERTING one character, at every position, by an arbitrary Unicode code point 0..0x10FFFF '
                        '(solver variable); interval bounds of every bounded operator as arbitrary non-negative rationals with every unit combination; one arbitrary character at every position of 6 literals with separators / exponents / radix prefixes and at the positions of a text with a constant, a ROS-topic annotation and an assertion; 12 concrete texts with module imports and annotations, 3 concrete 1000-level texts',
               'thorough': '12 templates, one arbitrary character at every position (replace and insert); two arbitrary characters at a seeded sample of 64 adjacent pairs and ~20 distant pairs (VERIF_C14_PAIRS=all: every adjacent pair)'},
    'outside': 'texts further than two characters from a template (in particular: long texts, deep nesting - termination is observed per explored path only, under a wall cap); module imports and ROS annotations beyond the listed texts; code points whose text is read by rtamt are enumerated by forks for ASCII and represented by the '
               'smallest member of their lexer class beyond ASCII',
    'assumptions': ['"derivable from the grammar" = the text, after the documented appending of a missing trailing ";", is lexed completely by the token rules of LtlLexer.g4 (longest match, first rule wins) '
                    'into a token sequence that StlParser.g4/LtlParser.g4 derive from specification_file',
                    'a unit-less bound takes the unit of the other bound, else the default unit (the rule of time_unit_transformer)',
                    'only the direction "accepted => derivable and bounds valid" and "otherwise RTAMTException" is checked: a derivable text may be rejected cleanly'],
    'stubs': ['antlr4 InputStream -> subclass holding symbolic character codes (getText forks over the ASCII values of a symbolic character before building the text)',
              'antlr4 LexerATNSimulator.MAX_DFA_EDGE = -1 (no DFA edge cache: every character goes through the ATN transitions, whose comparisons fork)',
              'antlr4 IntervalSet.__contains__ -> the same test written with comparisons',
              'Decimal/Fraction in the STL parser visitor -> identity on symbolic bound values (bounds harness only)'],
    'explanation': 'the character codes (or the bound values) are z3 variables; the real parse() runs on them, every comparison in the ATN interpreter forks, and per path the outcome (accepted / '
                   'RTAMTException / other exception) is compared with an independent recogniser generated from the .g4 files, run on the same symbolic characters',
}

REPO = os.environ.get('VERIF_REPO', '/repo')
CONVERSE = os.environ.get('VERIF_C14_CONVERSE') == '1'       # experiment: is every derivable text accepted?
PH0 = 0xE000                     # private-use code points mark the symbolic positions inside a template
_G = {}


def grammar():
    if 'g' not in _G:
        from .. import g4
        _G['g'] = g4.Grammar(REPO)
    return _G['g']


# ----------------------------------------------------------------------------------------------------------------------
# symbolic input stream (harness stub for antlr4.InputStream)
# ----------------------------------------------------------------------------------------------------------------------
_CUR = {'syms': None, 'stream': None}


def _make_stream_class():
    from antlr4.InputStream import InputStream
    import sys

    class SymInputStream(InputStream):
        def __init__(self, data):
            InputStream.__init__(self, data)
            _CUR['stream'] = self
            self.sympos = {}
            for i, ch in enumerate(self.strdata):
                k = ord(ch) - PH0
                if 0 <= k < len(_CUR['syms']):
                    self.data[i] = _CUR['syms'][k]
                    self.sympos[i] = _CUR['syms'][k]

        def getText(self, start, stop):
            if stop >= self._size:
                stop = self._size - 1
            if start >= self._size:
                return ''
            caller = sys._getframe(1).f_code.co_name
            if caller in ('notifyListeners', '__str__'):
                for i in range(start, stop + 1):          # text of a lexer error message: any member of the class will do
                    pin_rep(self.data, i, 0, 0x10FFFF)
            else:
                pin_span(self.data, start, stop + 1)
            return ''.join(chr(x) for x in self.data[start:stop + 1])
    return SymInputStream


EDGE_CHARS = [ord(ch) for ch in ';\n \t\r']
LITERAL_CHARS = [ord(ch) for ch in '0123456789.eExXbB_+-abcdfACDF']
CLASSES = [(48, 57), (97, 122), (65, 90), (0, 127), (128, 0x10FFFF)]


def pin_rep(data, i, lo, hi):
    """the smallest feasible code point stands for the whole set the path allows (no fork; binary search, so deterministic under
    re-execution).  Only for text that cannot influence the outcome: the lexer's error message."""
    c = data[i]
    if not isinstance(c, symx.Sym):
        return
    ctx = symx.CTX
    while lo < hi:
        mid = (lo + hi) // 2
        if ctx.check(c.r >= lo, c.r <= mid) == z3.sat:
            hi = mid
        else:
            lo = mid + 1
    ctx.solver.add(c.r == lo)
    ctx.notes.append('message-representative')
    data[i] = lo


def pin_class(data, i):
    """... except inside one of the classes digits / lower-case / upper-case / other ASCII / beyond ASCII, where the smallest
    member that is still feasible stands for all of them (the solver-visible constraint c == rep is added without a fork)"""
    c = data[i]
    ctx = symx.CTX
    for lo, hi in CLASSES:
        if ctx.check(c.r >= lo, c.r <= hi) != z3.sat:
            continue
        if not (z3.is_true(z3.simplify(z3.And(c.r >= lo, c.r <= hi))) or symx.fork(z3.And(c.r >= lo, c.r <= hi))):
            continue
        l, h = lo, hi
        while l < h:
            mid = (l + h) // 2
            if ctx.check(c.r >= l, c.r <= mid) == z3.sat:
                h = mid
            else:
                l = mid + 1
        ctx.solver.add(c.r == l)
        ctx.notes.append('class-representative')
        data[i] = l
        return
    raise symx.PathAbort('infeasible')


def pin_values(data, i, values):
    """one fork per listed value (complete for these values)"""
    c = data[i]
    if not isinstance(c, symx.Sym):
        return True
    for v in values:
        if c == v:
            data[i] = v
            return True
    return False


def pin_span(data, start, end):
    """make the token text data[start:end] concrete.  A numeric literal: every symbolic character is enumerated value by value
    (its value matters).  Anything else (identifier, keyword, operator): one fork per character that makes the word equal to a
    known name, one per '.', '/', '$', '_' (rtamt splits identifiers at '.'), and a class representative otherwise."""
    if all(not isinstance(data[i], symx.Sym) for i in range(start, end)):
        return
    if isinstance(data[start], symx.Sym):
        if not pin_values(data, start, [ord(ch) for ch in '0123456789.']):
            _pin_word_char(data, start, start, end)
    literal = chr(data[start]) in '0123456789.'
    for i in range(start + 1, end):
        if not isinstance(data[i], symx.Sym):
            continue
        if literal:
            if not pin_values(data, i, LITERAL_CHARS):
                pin_class(data, i)
        else:
            _pin_word_char(data, i, start, end)


def _pin_word_char(data, i, start, end):
    cands = []
    for n in _CUR.get('names', ()):
        if len(n) == end - start and all(isinstance(data[j], symx.Sym) or data[j] == ord(n[j - start]) for j in range(start, end)):
            if ord(n[i - start]) not in cands:
                cands.append(ord(n[i - start]))
    for ch in './$_':
        if ord(ch) not in cands:
            cands.append(ord(ch))
    if not pin_values(data, i, sorted(cands)):
        pin_class(data, i)


def pin(data, i):
    """used by the oracle for the text of literals and constant names inside intervals"""
    if isinstance(data[i], symx.Sym):
        if not pin_values(data, i, list(range(128))):
            pin_class(data, i)


def _contains(self, item):
    if self.intervals is None:
        return False
    for i in self.intervals:
        if item >= i.start and item < i.stop:
            return True
    return False


class _Stubs(object):
    """installed for the symbolic run of one body only"""

    def __enter__(self):
        import rtamt.syntax.ast.parser.abstract_ast_parser as AP
        from antlr4.atn.LexerATNSimulator import LexerATNSimulator
        from antlr4.IntervalSet import IntervalSet
        self.saved = (AP.InputStream, LexerATNSimulator.MAX_DFA_EDGE, IntervalSet.__contains__)
        AP.InputStream = _make_stream_class()
        LexerATNSimulator.MAX_DFA_EDGE = -1
        IntervalSet.__contains__ = _contains
        # the lexer's DFA states are a class-level cache filled by earlier runs: start every run from the same (empty) cache, so
        # that the sequence of comparisons - and with it the sequence of forks - is the same when a path is re-executed
        from antlr4.dfa.DFA import DFA
        import rtamt.antlr.parser.stl.LtlLexer as LX
        self.lexcls = LX.LtlLexer
        self.saved_dfa = LX.LtlLexer.decisionsToDFA
        LX.LtlLexer.decisionsToDFA = [DFA(ds, i) for i, ds in enumerate(LX.LtlLexer.atn.decisionToState)]
        return self

    def __exit__(self, *a):
        import rtamt.syntax.ast.parser.abstract_ast_parser as AP
        from antlr4.atn.LexerATNSimulator import LexerATNSimulator
        from antlr4.IntervalSet import IntervalSet
        AP.InputStream, LexerATNSimulator.MAX_DFA_EDGE, IntervalSet.__contains__ = self.saved
        self.lexcls.decisionsToDFA = self.saved_dfa
        _CUR['syms'] = _CUR['stream'] = None


# ----------------------------------------------------------------------------------------------------------------------
# oracle for the semantic side conditions
# ----------------------------------------------------------------------------------------------------------------------
UNITS = {'SEC': 10 ** 9, 'MSEC': 10 ** 6, 'USEC': 10 ** 3, 'NSEC': 1}


def literal_value(txt):
    """value of an IntegerLiteral / RealLiteral of LtlLexer.g4 (Java-style: hex, binary, underscores)"""
    t = txt.replace('_', '')
    if t[:2] in ('0x', '0X'):
        return fractions.Fraction(int(t[2:], 16))
    if t[:2] in ('0b', '0B'):
        return fractions.Fraction(int(t[2:], 2))
    return fractions.Fraction(t)


def bounds_valid(toks, data, consts):
    """every interval of the (derivable) token sequence has 0 <= begin <= end and only declared constants"""
    i = 0
    n = len(toks)
    while i < n:
        if toks[i][0] != 'LBRACK':
            i += 1
            continue
        j = i + 1
        vals = []
        for _ in range(2):
            name, s, e = toks[j]
            for p in range(s, e):
                pin(data, p)
            txt = ''.join(chr(x) for x in data[s:e])
            if name == 'Identifier':
                if txt not in consts:
                    return False
                v = fractions.Fraction(str(consts[txt]))
            else:
                v = literal_value(txt)
            j += 1
            unit = None
            if toks[j][0] in UNITS:
                unit = UNITS[toks[j][0]]
                j += 1
            vals.append((v, unit))
            j += 1                                # separator / RBRACK
        (b, bu), (e, eu) = vals
        if bu is None and eu is None:
            bu = eu = 1
        elif bu is None:
            bu = eu
        elif eu is None:
            eu = bu
        if not (0 <= b * bu <= e * eu):
            return False
        i = j
    return True


# ----------------------------------------------------------------------------------------------------------------------
# harnesses
# ----------------------------------------------------------------------------------------------------------------------
def _spec(kind, decl, consts):
    import rtamt
    s = {'dt': rtamt.StlDiscreteTimeSpecification, 'ct': rtamt.StlDenseTimeSpecification,
         'dt-online': rtamt.StlDiscreteTimeOnlineSpecification}[kind]()
    for v in decl:
        s.declare_var(v, 'float')
    for n, ty, val in consts:
        s.declare_const(n, ty, val)
    return s


def _outcome(s):
    import rtamt
    import logging
    import sys
    import io
    logging.disable(logging.CRITICAL)
    err, sys.stderr = sys.stderr, io.StringIO()           # the antlr4 console listener reports skipped characters there
    try:
        s.parse()
        return 'ok'
    except rtamt.RTAMTException:
        return 'rej'
    except symx.HarnessError:
        raise
    except Exception as e:
        return 'other:%s' % type(e).__name__
    finally:
        sys.stderr = err
        logging.disable(logging.WARNING)


def _words(template):
    import re
    return re.findall(r'[A-Za-z_$][A-Za-z_$0-9./]*', ''.join(ch if ord(ch) < PH0 else ' ' for ch in template))


def h_chars(template, k, kind='dt', decl=('a', 'b'), consts=(), again=True, first=None, must_accept=False):
    """template: specification text in which the code points U+E000.. mark k positions holding ARBITRARY characters"""
    consts = [tuple(c) for c in consts]
    cdict = {n: v for n, _, v in consts}

    def body(env):
        A = env.A
        G = grammar()
        cs = [env.real('c%d' % i) for i in range(k)]
        if env.symbolic:
            for c in cs:
                env.assume(z3.And(z3.IsInt(c.r), c.r >= 0, c.r <= 0x10FFFF))
            s = _spec(kind, decl, consts)
            if first is not None:
                # the object has parsed ANOTHER text before (successfully or not): what it remembers must not change how this text fails
                s.spec = first
                _outcome(s)
            # rtamt handles the text as a str before it reaches the lexer (it appends the omitted trailing ';'); a placeholder is not
            # the character it stands for, so the characters such string operations look at - ';' and white space at either end of the
            # text - are decided by forks BEFORE parse() and written into the text; a placeholder left there stands for any other character
            tmpl = template
            L = len(tmpl)
            for p_, ch in enumerate(template):
                j = ord(ch) - PH0
                if 0 <= j < k and (p_ == 0 or p_ >= L - 2):
                    for v in EDGE_CHARS:
                        if cs[j] == v:
                            tmpl = tmpl[:p_] + chr(v) + tmpl[p_ + 1:]
                            break
            s.spec = tmpl
            with _Stubs():
                _CUR['syms'] = cs
                _CUR['names'] = sorted(set(decl) | set(cdict) | set(_words(tmpl)) | set(_words(first or '')))
                out = _outcome(s)
                st = _CUR['stream']
                seen = list(st.data) if st is not None else None
                out2 = _outcome(s) if out == 'rej' and again else out          # a rejected text stays rejected when parse() is called again on the object
            # the oracle judges the text the USER wrote (plus the ';' that may be omitted), not what parse() made of it
            data = [cs[ord(ch) - PH0] if 0 <= ord(ch) - PH0 < k else ord(ch) for ch in tmpl]
            if not tmpl.endswith(';'):
                data = data + [ord(';')]
            if seen is not None and len(seen) == len(data) and all(isinstance(a_, symx.Sym) or a_ == b_ for a_, b_ in zip(data, seen)):
                data = seen                         # same text: keep the characters already made concrete by forks
        else:
            codes = [int(c) for c in cs]
            text = ''.join(chr(codes[ord(ch) - PH0]) if 0 <= ord(ch) - PH0 < k else ch for ch in template)
            s = _spec(kind, decl, consts)
            if first is not None:
                s.spec = first
                _outcome(s)
            s.spec = text
            out = _outcome(s)
            out2 = _outcome(s) if out == 'rej' and again else out
            full = text if text.endswith(';') else text + ';'
            data = [ord(ch) for ch in full]
        env.observe('outcome', [0 if out == 'ok' else (1 if out == 'rej' else 2)])
        res = [('only-RTAMTException-' + (out if out.startswith('other') else 'x'), A.bool(not out.startswith('other'))),
               ('rejected-again-on-second-parse', A.bool(out2 == out))]
        if must_accept:
            res.append(('legal-text-accepted', A.bool(out == 'ok')))
        if out == 'rej' and CONVERSE:
            ok, toks = G.derivable(data)
            res.append(('derivable-with-valid-bounds-implies-accepted', A.bool(not (ok and bounds_valid(toks, data, cdict)))))
        if out == 'ok':
            ok, toks = G.derivable(data)
            if refsem.TWIN == 'nospace':              # vacuity twin: an oracle that does not know white space - must be refuted
                ok = ok and not any(isinstance(x, int) and x == 32 for x in data)
            res.append(('accepted-only-if-derivable', A.bool(ok)))
            if ok:
                res.append(('accepted-only-with-valid-bounds', A.bool(bounds_valid(toks, data, cdict))))
        return res
    return body


class _BoundStubs(object):
    def __init__(self, table):
        self.table = table

    def __enter__(self):
        import decimal
        import rtamt.syntax.ast.parser.stl.parser_visitor as PV
        self.saved = (PV.Decimal, PV.Fraction)
        table = self.table

        def dec(x):
            return table[x] if x in table else decimal.Decimal(x)

        def frac(x, *a):
            return x if isinstance(x, symx.Sym) else fractions.Fraction(x, *a)
        PV.Decimal, PV.Fraction = dec, frac

    def __exit__(self, *a):
        import rtamt.syntax.ast.parser.stl.parser_visitor as PV
        PV.Decimal, PV.Fraction = self.saved


def _dec_text(fr):
    """decimal text of a non-negative rational (exact when the denominator is 2^a 5^b)"""
    fr = fractions.Fraction(fr)
    d = fr.denominator
    while d % 2 == 0:
        d //= 2
    while d % 5 == 0:
        d //= 5
    if d != 1:
        raise symx.PathAbort('bound value has no finite decimal text')
    digits = 0
    x = fr
    while x.denominator != 1:
        x *= 10
        digits += 1
    s = str(x.numerator).rjust(digits + 1, '0')
    return s if digits == 0 else s[:-digits] + '.' + s[-digits:]


def h_bounds(op, bu, eu, sep=',', kind='dt', const=None):
    """interval bounds as arbitrary non-negative numbers: parse() may succeed only if 0 <= begin <= end (in the units written)"""
    unit_of = {'': None, 's': 10 ** 9, 'ms': 10 ** 6, 'us': 10 ** 3, 'ns': 1}

    def body(env):
        A = env.A
        B, E = env.real('B'), env.real('E')
        env.assume(A.And(A.le(0, B), A.le(0, E)))
        binary = op in ('until', 'since', 'unless')
        marks = ('70001', '70002')

        def text(b, e):
            bt = 'KB' if const == 'begin' else b
            et = 'KE' if const == 'end' else e
            iv = '[%s%s%s%s%s]' % (bt, (' ' + bu) if bu else '', sep, et, (' ' + eu) if eu else '')
            return 'out = (a>=1) %s%s (b>=1)' % (op, iv) if binary else 'out = %s%s (a>=b)' % (op, iv)
        if env.symbolic:
            consts = [('KB', 'float', marks[0])] if const == 'begin' else ([('KE', 'float', marks[1])] if const == 'end' else [])
            s = _spec(kind, ('a', 'b'), consts)
            s.spec = text(*marks)
            with _BoundStubs({marks[0]: B, marks[1]: E}):
                out = _outcome(s)
        else:
            bt, et = _dec_text(B), _dec_text(E)
            consts = [('KB', 'float', bt)] if const == 'begin' else ([('KE', 'float', et)] if const == 'end' else [])
            s = _spec(kind, ('a', 'b'), consts)
            s.spec = text(bt, et)
            out = _outcome(s)
        env.observe('outcome', [0 if out == 'ok' else (1 if out == 'rej' else 2)])
        b_u, e_u = unit_of[bu], unit_of[eu]
        if b_u is None and e_u is None:
            b_u = e_u = 1
        elif b_u is None:
            b_u = e_u
        elif e_u is None:
            e_u = b_u
        res = [('only-RTAMTException-' + (out if out.startswith('other') else 'x'), A.bool(not out.startswith('other')))]
        if out == 'ok':
            if refsem.TWIN == 'strict':               # vacuity twin: demands begin < end - must be refuted by [B,B]
                res.append(('accepted-only-with-begin<=end', A.lt(B * b_u, E * e_u)))
            else:
                res.append(('accepted-only-with-begin<=end', A.le(B * b_u, E * e_u)))
        return res
    return body


# ----------------------------------------------------------------------------------------------------------------------
TEMPLATES_Q = [
    ('dt', 'out = a + b', ()),
    ('dt', 'out = always[0,2](a >= b)', ()),
    ('dt', 'out = (a until[1:2 s] b) or not(a<=1.5)', ()),
    ('ct', 'x = once[0,K](a>3); out = x -> F[0:1](b<2e1);', (('K', 'int', '1'),)),
    ('dt', 'out = a /* c */ + b // t', ()),
    ('dt', 'out = sX a <-> (rise(b) & 0x1F !== b)', ()),
]
TEMPLATES_T = TEMPLATES_Q + [
    ('dt', 'out = abs(a - 1_0) * sqrt(b) / 2 >= pow(a,2)', ()),
    ('dt-online', 'out = (a since[0,1] b) xor H[1:2 ms](a implies b)', ()),
    ('ct', 'out = a unless[1,2] b', ()),
    ('dt', 'float c\nout = prev a | next c', ()),
    ('dt', 'out = eventually[1s:2000ms](a>0b11) iff O (b == .5)', ()),
    ('dt', 'out=-a', ()),
]


def _mark(t, i, mode, k=1):
    """k symbolic characters at position i: replacing the characters there ('r') or inserted before them ('i')"""
    ph = ''.join(chr(PH0 + j) for j in range(k))
    return t[:i] + ph + (t[i + k:] if mode == 'r' else t[i:])


def obligations(tier, rng):
    quick = tier == 'quick'
    out = []
    temps = TEMPLATES_Q if quick else TEMPLATES_T
    for ti, (kind, t, consts) in enumerate(temps):
        L = len(t)
        for mode in ('r', 'i'):
            for i in range(L if mode == 'r' else L + 1):          # including the last character and a character appended at the end
                if quick and i < L - 1 and ((mode == 'i' and i % 3 != ti % 3) or (ti in (2, 4) and i % 2 != (0 if mode == 'r' else 1))):
                    continue                                      # quick: every replacement (every other one on two templates), a third of the insertions
                out.append(ob('C14', 'chars', 'char1/%s/T%d/%s@%d/%r' % (kind, ti, mode, i, t), template=_mark(t, i, mode), k=1, kind=kind, consts=[list(c) for c in consts],
                              max_paths=4000, wall=600, validate=1, again=(not quick or i % 4 == 0)))      # quick: the second parse() on every fourth position
    # literals: one arbitrary character at every position of a number that already carries a separator, an exponent or a radix prefix
    # (what the lexer accepts as one literal and what int()/float()/Decimal() read differ in such corners: `1__0`, `1_e1`, `0x_F`)
    for lit in ['1_0', '2.5_0', '0xF_F', '0b1_1', '1e1_0', '1_0.2_5e-0_1']:
        for pre, post in [('out = a > ', ''), ('out = always[0,1](a + ', ' > b)')]:
            t = pre + lit + post
            for mode in ('r', 'i'):
                for i in range(len(pre), len(pre) + len(lit) + (1 if mode == 'i' else 0)):
                    if post and (quick or mode == 'r'):
                        continue
                    out.append(ob('C14', 'chars', 'literal/dt/%s@%d/%r' % (mode, i, t), template=_mark(t, i, mode), k=1, kind='dt', max_paths=4000, wall=600, validate=1))
    # declarations, annotations and imports: an arbitrary character in a text with a constant, a ROS-topic annotation and a sub-formula;
    # imported types that do not exist / cannot be constructed / have no such field (concrete texts: a module name cannot be symbolic)
    t = 'const float c = 1\n@ topic(c, t)\nout = a > c'
    for i in range(len(t)):
        if quick and i % 2 and not (24 <= i <= 31):
            continue
        out.append(ob('C14', 'chars', 'annot/dt/r@%d/%r' % (i, t), template=_mark(t, i, 'r'), k=1, kind='dt', max_paths=4000, wall=600, validate=1))
    for t in ['from os import Foo\nFoo w\nout = w.a > 1', 'from collections import namedtuple\nnamedtuple w\nout = w.a > 1', 'from nosuchmodule import T\nT w\nout = w.a > 1',
              'from vf.objmsg import Msg\nMsg w\nout = w.x > 1', 'from vf.objmsg import Msg\nMsg w\nout = w.nofield > 1', 'from vf.objmsg import Msg\nMsg w\nout = w > 1',
              'from vf.objmsg import Msg\nMsg w\n@ topic(w, t)\nout = w.x > 1', 'T w\nout = w.a > 1', 'from os import path\npath w\nout = w.a > 1',
              'const float c = 1\n@ topic(c, t)\nout = a > c', 'input float w\n@ topic(w, t)\nout = w > 1', '@ topic(w, t)\nout = a > 1']:
        out.append(ob('C14', 'chars', 'imports/dt/%r' % t, template=t, k=0, kind='dt', validate=0))
    # very deep nesting: the recursive-descent parser runs out of stack - that must be an RTAMTException too (concrete texts, 1000 levels)
    for name, t in [('parens', 'out = ' + '(' * 1000 + 'a' + ')' * 1000 + ' > 1'), ('sum', 'out = ' + 'a + ' * 1000 + 'a > 1'), ('not', 'out = ' + 'not ' * 1000 + '(a > 1)')]:
        out.append(ob('C14', 'chars', 'deep/dt/%s-1000' % name, template=t, k=0, kind='dt', validate=0))
    # degenerate texts (no arbitrary character at all: the k = 0 members of the family)
    for t in ['', ' ', ';', '\n', ';;', '// c', '/* c */']:
        out.append(ob('C14', 'chars', 'char0/dt/%r' % t, template=t, k=0, kind='dt', validate=0))
    # an object that has parsed another text before: names left behind by the first parse (assertion names, implicitly declared signals,
    # sub-formula names) meet an arbitrary character in the second text
    PH = chr(PH0)
    for fi, (first, second) in enumerate([('out = a > 1', 'res = ' + PH + 'ut + 1'), ('out = a > 1', 'res = out' + PH + ' > 0'), ('p = once(a); out = p and b', 'out = ' + PH + ' or b'),
                                           ('out = c > 1', 'out = ' + PH + ' + a'), ('out = always[0,K](a)', 'out = always[0,' + PH + '](a)'), ('out = a +', 'out = a ' + PH + ' b'),
                                           ('x = a > 1; out = x.', 'out = x' + PH + ' > 0')]):
        out.append(ob('C14', 'chars', 'reparse/%d/%r then %r' % (fi, first, second.replace(PH, '?')), template=second, k=1, kind='dt', first=first, max_paths=4000, wall=600, validate=1))
    # the other direction, on a corpus: texts that use every alternative of the grammar once or twice (declarations with and without
    # initialisers and io annotations, constants, comments, every operator and alias, unit spellings, literals, unnamed assertions that
    # start with a unary minus) ARE accepted.  Enumeration, no solver: "accepts exactly" cannot be decided for all texts.
    legal = ['float w = a\n-b > 0.5;', 'float w = a + 1\nout = w > b', 'float w\nout = w > 0', 'input float w\nout = w >= a', 'output float w\nout = w >= a',
             'const float c = 1.5\nout = a > c', 'const int k = 2\nout = a > k', 'float w = 3\nfloat v = w\nout = v > a', '-a > 0', 'out = -a > -b', 'out = a > b - 1',
             'p = a > 0; out = p and b > 0', '// c\nout = a > 0', 'out = always[0:2 s](a>0) and eventually[1ms:2ms] (b>0) or (a until[1,2] b)', 'out = a > 0;', 'a > 0',
             'out = rise(a>0) or fall(b>0)', 'out = prev a > 0 -> next b > 0', 'out = abs(a) + sqrt(b) * exp(a) / pow(a,2) >= 0', 'out = (a>0) iff (b>0) xor (a<b)', 'out = G F (a>0)',
             'out = a>0 S b>0', 'out = H[0,1](a>0) | O[1:2](b>0)', 'out = not(a>0) & !(b<0)', 'out = a == 0 or b !== 1', 'out = 0x1F > a', 'out = 1e1 > a', 'out = .5 > a',
             'float c\nfloat d\nout = c > d', 'out = (a > 0) unless[1,2] (b > 0)', 'out = a > 0 W b > 0', 'out = sX a > 0 U sY b > 0', 'out = (a > 0) since[1s:2000ms] (b > 0)']
    for li, t in enumerate(legal):
        for kind in ('dt', 'ct'):
            out.append(ob('C14', 'chars', 'legal/%s/%d/%r' % (kind, li, t), template=t, k=0, kind=kind, validate=0, must_accept=True))
    # concrete endings of every template: exactly one ';' may close an assertion
    for ti, (kind, t, consts) in enumerate(temps):
        base = t[:-1] if t.endswith(';') else t
        for tail in [';', ';;', '; ;', ';\n', '\n;', ' ;\n;\n', ';;;', ' ', '\n', ';\t']:
            out.append(ob('C14', 'chars', 'tail/%s/T%d/%r' % (kind, ti, tail), template=base + tail, k=0, kind=kind, consts=[list(c) for c in consts], validate=0))
    # two arbitrary characters next to each other
    if not quick:                 # 2-4 minutes per pair: thorough tier only, a seeded sample of 64 of the ~480 adjacent pairs
        import os as _os          # (VERIF_C14_PAIRS=all: every adjacent pair, several hours on 16 cores)
        adj = [(ti, i) for ti, (kind, t, consts) in enumerate(temps) for i in range(len(t) - 1)]
        if _os.environ.get('VERIF_C14_PAIRS') != 'all':
            adj = sorted(rng.sample(adj, 64))
        for ti, i in adj:
            kind, t, consts = temps[ti]
            if True:
                out.append(ob('C14', 'chars', 'char2/%s/T%d/r@%d/%r' % (kind, ti, i, t), template=_mark(t, i, 'r', 2), k=2, kind=kind, consts=[list(c) for c in consts],
                              max_paths=60000, wall=1500, validate=1))
    if not quick:
        for n in range(24):
            ti = rng.randrange(len(temps))
            kind, t, consts = temps[ti]
            i, j = sorted(rng.sample(range(len(t) - 1), 2))
            if j == i + 1:
                continue
            m = t[:i] + chr(PH0) + t[i + 1:j] + chr(PH0 + 1) + t[j + 1:]
            out.append(ob('C14', 'chars', 'char2/%s/T%d/r@%d,%d/%r' % (kind, ti, i, j, t), template=m, k=2, kind=kind, consts=[list(c) for c in consts],
                          max_paths=60000, wall=1500, validate=1))
    # interval bounds as numbers
    ops = ['always', 'eventually', 'once', 'historically', 'until', 'since', 'unless']
    units = ['', 's', 'ms', 'us', 'ns']
    for op in ops:
        for bu in units:
            for eu in units:
                if quick and op not in ('always', 'until') and (bu, eu) not in (('', ''), ('s', 'ms'), ('ms', ''), ('', 'us')):
                    continue
                for kind in (('dt',) if quick else ('dt', 'ct')):
                    out.append(ob('C14', 'bounds', 'bounds/%s/%s[%s,%s]' % (kind, op, bu or '-', eu or '-'), op=op, bu=bu, eu=eu, kind=kind, validate=1))
        for const in ('begin', 'end'):
            out.append(ob('C14', 'bounds', 'bounds/dt/%s[const %s]' % (op, const), op=op, bu='', eu='', const=const, validate=1))
            out.append(ob('C14', 'bounds', 'bounds/dt/%s[const %s, ms:s]' % (op, const), op=op, bu='ms', eu='s', sep=':', const=const, validate=1))
    seen = set()
    out = [o for o in out if not (o['oid'] in seen or seen.add(o['oid']))]
    from .. import core as _core
    return out + _core.make_twins(out, [("char1/dt/T0/r@6/", 'nospace'), ('bounds/dt/always[-,-]', 'strict'), ('bounds/dt/until[ms,s]', 'strict')])
