"""C16 — settled offline results are stable under trace extension."""
from .. import ct, dt, refct, refsem, symx
from ..core import ob
from ..refsem import T, text, variables, hor, X, Y, Z

INFO = {
    'functions': ['discrete-time offline visitor (as C01)', 'dense-time offline visitor and intersection (as C04)', 'horizon computed by the check (refsem.hor), independent of rtamt.pastifier.stl.horizon'],
    'bounds': {'quick': 'discrete: F1 without unbounded future x bounds, F-fut nestings, sample of F2; N1 in h+1..h+3, extension by 1..3 symbolic samples; '
                        'dense: every operator without unbounded future, n=2..3 samples + 1..2 extension samples, symbolic time-stamps, tau symbolic with tau+h < end(w1); sampling period coarser than the unit of the bounds with traces growing past the number written as the bound; the notation cases of vf/pool.py',
               'thorough': 'F2 exhaustive, F3 seeded, longer traces; dense n=3+2, nested dense formulas'},
    'outside': 'unbounded future operators (excluded by the property)',
    'assumptions': ['h = largest total of upper bounds along a chain of future operators (next = 1 sample)'],
    'explanation': 'trace and extension are symbolic; z3 decides evaluate(w1++e)[t] == evaluate(w1)[t] for all values whenever t+h lies inside w1',
}


def h_dt(f, N1, ext, same=False, period=None):
    f = T(f)
    vs = sorted(variables(f))
    h = hor(f)

    def body(env):
        A = env.A
        w2 = dt.trace(env, vs, N1 + ext)
        w1 = {v: w2[v][:N1] for v in vs}
        s1 = dt.make_spec('offline~', 'out = ' + text(f), vs, period=period, f=f)
        s2 = s1 if same else dt.make_spec('offline~', 'out = ' + text(f), vs, period=period, f=f)     # same: one object evaluates the growing trace
        r1 = [p[1] for p in dt.offline(s1, w1, N1)]
        r2 = [p[1] for p in dt.offline(s2, w2, N1 + ext)]
        env.observe('short', r1)
        res = [('lengths', A.bool(len(r1) == N1 and len(r2) == N1 + ext))]
        for t in range(N1):
            if t + h < N1:
                res.append(('settled@%d' % t, A.eq(r2[t], r1[t])))
        return res
    return body


def dense_hor(f):
    f = T(f)
    k = f[0]
    if k in ('var', 'const'):
        return 0
    m = max(dense_hor(c) for c in refsem.kids(f))
    if k in ('eventually_t', 'always_t'):
        return f[3] + m
    if k in ('until_t',):
        return f[4] + m
    return m


def h_ct(f, ns, ext, same=False, grids=None):
    f = T(f)
    vs = sorted(variables(f))
    h = dense_hor(f)

    def body(env):
        A = env.A
        full = {v: ct.signal(env, v, n + e, 'zero', grid=(grids[k] if grids else None)) for k, (v, n, e) in enumerate(zip(vs, ns, ext))}
        short = {v: full[v][:n] for v, n in zip(vs, ns)}
        s1 = ct.make_spec('offline~', 'out = ' + text(f), vs)
        s2 = s1 if same else ct.make_spec('offline~', 'out = ' + text(f), vs)
        o1 = [list(p) for p in s1.evaluate(*[[v, [list(p) for p in short[v]]] for v in vs])]
        o2 = [list(p) for p in s2.evaluate(*[[v, [list(p) for p in full[v]]] for v in vs])]
        env.observe('short', o1)
        res = ct.wellformed(A, o1, 'short') + ct.wellformed(A, o2, 'long')
        if not o1 or not o2:
            return res + [('nonempty', A.false)]
        S, E1 = refct.domain(A, [short[v] for v in vs])
        tau = env.real('tau')
        env.assume(A.And(A.le(S, tau), A.lt(tau + h, E1)))
        res.append(('settled', A.eq(refct.val(A, o2, tau), refct.val(A, o1, tau))))
        return res
    return body


def obligations(tier, rng):
    quick = tier == 'quick'
    out = []
    bounds = [(0, 1), (1, 2), (0, 2), (2, 2)] if quick else refsem.BOUNDS_Q
    ops = [k for k in list(refsem.UN) + list(refsem.UNT) + list(refsem.BIN) + list(refsem.BINT)
           if k not in refsem.UNBOUNDED_FUTURE and k not in ('sqrt', 'exp', 'ln', 'pow', 'log', 'div')]
    f1 = refsem.f1(bounds, ops=set(ops))
    for f in f1:
        h = hor(f)
        for N1 in ([h + 1, h + 3] if quick else [h + 1, h + 2, h + 4]):
            for e in ([1, 3] if quick else [1, 2, 3]):
                out.append(ob('C16', 'dt', 'dt/F1/%s/N1=%d+%d' % (text(f), N1, e), f=f, N1=N1, ext=e))
    f2 = refsem.depth2(ops, ops, [(0, 1), (1, 2)])
    if quick:
        f2 = rng.sample(f2, len(f2) * 5 // 100)
    for f in f2:
        h = hor(f)
        out.append(ob('C16', 'dt', 'dt/F2/%s/N1=%d+2' % (text(f), h + 2), f=f, N1=h + 2, ext=2))
    if not quick:
        for i in range(300):
            f = refsem.gen_formula(rng, rng.choice([3, 4]), ops + list(refsem.PRED), [(0, 1), (1, 2), (0, 2)], ('x', 'y'))
            h = hor(f)
            if h > 8:
                continue
            out.append(ob('C16', 'dt', 'dt/F3/%d/%s/N1=%d+2' % (i, text(f), h + 2), f=f, N1=h + 2, ext=2))
    dun = ['not', 'abs', 'once', 'historically']
    dunt = ['once_t', 'historically_t', 'eventually_t', 'always_t']
    dbin = ['and', 'or', 'implies', 'sub', 'geq', 'eq', 'since']
    dfs = [(k, X) for k in dun] + [(k, X, a, b) for k in dunt for a, b in [(0, 1), (1, 2)]]
    for f in dfs:
        for n, e in ([(2, 1), (3, 1), (2, 2)] if quick else [(2, 1), (3, 1), (2, 2), (3, 2), (4, 1)]):
            out.append(ob('C16', 'ct', 'ct/%s/n=%d+%d' % (text(f), n, e), f=f, ns=[n], ext=[e], max_paths=30000, wall=(300 if quick else 900)))
    for k in dbin:
        f = (k, X, Y)
        for ns, e in ([([2, 2], [1, 1])] if quick else [([2, 2], [1, 1]), ([2, 2], [1, 0]), ([3, 2], [1, 1])]):
            out.append(ob('C16', 'ct', 'ct/%s/n=%s+%s' % (text(f), ns, e), f=f, ns=ns, ext=e, max_paths=60000, wall=(300 if quick else 1500)))
    for f in [('since_t', X, Y, 0, 1), ('until_t', X, Y, 0, 1)]:
        if quick:
            out.append(ob('C16', 'ct', 'ct/%s/n=[2, 2]+[1, 0]' % text(f), f=f, ns=[2, 2], ext=[1, 0], max_paths=60000, wall=(300 if quick else 1500)))
            continue        # 2+1 / 2+1 samples take ~5 min each: thorough tier
        out.append(ob('C16', 'ct', 'ct/%s/n=[2, 2]+[1, 1]' % text(f), f=f, ns=[2, 2], ext=[1, 1], max_paths=60000, wall=(300 if quick else 1500)))
    # dense until/since[1,2] with 2+2 samples and a 2-sample extension exceed 25 min per obligation: not run here;
    # the value of those operators on >= 3 samples of the right operand is covered by C04 (n=[1,3], [3,1]).
    for f in [('eventually_t', ('not', X), 0, 1), ('once', ('always_t', X, 0, 1)), ('always_t', ('eventually_t', X, 0, 1), 0, 1),
              ('and', ('eventually_t', X, 0, 1), ('once', X))]:
        out.append(ob('C16', 'ct', 'ct/nested/%s/n=2+1' % text(f), f=f, ns=[2], ext=[1], max_paths=60000, wall=(300 if quick else 1500)))
    for k1 in ('once', 'historically'):
        for k2 in ('once', 'historically'):
            for f in [(k1, (k2, X)), (k1, ('implies', ('geq', X, ('const', 3.0)), (k2, ('geq', Y, ('const', 3.0))))), (k1, ('or', X, (k2, Y)))]:
                two = len(variables(f)) > 1
                out.append(ob('C16', 'ct', 'ct/nested-past/%s' % text(f), f=f, ns=[2, 2] if two else [3], ext=[1, 1] if two else [1],
                              max_paths=60000, wall=(300 if quick else 1500)))
    # bounded until/since with a > 0 and windows over several samples: concrete (unaligned) time grids, symbolic values; the extension brings
    # values after the end of w1 that a look beyond t+b would pick up
    for f in [('until_t', X, Y, 1, 3), ('until_t', X, Y, 1, 2), ('unless_t', X, Y, 1, 2), ('since_t', X, Y, 1, 2), ('eventually_t', ('and', X, Y), 1, 2)]:
        # few samples, long segments: w1 ends at 8, the extension brings samples at 10 and 12
        for gi, (gx, nx, gy, ny) in enumerate([([0, 8, 10], 2, [0, 1, 8, 10, 12], 3), ([0, 2, 8, 10, 12], 3, [0, 8, 11], 2)]):
            if quick and not (f[0] == 'until_t' and (gi, f[4]) in ((0, 3), (1, 2))) and f[0] != 'eventually_t':
                continue            # 1-3 minutes each: two in the quick tier, all in the thorough tier
            out.append(ob('C16', 'ct', 'ct/grid%d/%s/n=[%d, %d]+[%d, %d]' % (gi, text(f), nx, ny, len(gx) - nx, len(gy) - ny), f=f, ns=[nx, ny],
                          ext=[len(gx) - nx, len(gy) - ny], grids=[gx, gy], max_paths=60000, wall=(600 if quick else 1500)))
    # bounds written with units (the horizon is a duration, whatever the notation)
    for txt, f in [('(x) unless[2000ms,4000] (y)', ('unless_t', X, Y, 2, 4)), ('(x) unless[1,2s] (y)', ('unless_t', X, Y, 1, 2)), ('(x) until[1s,2000ms] (y)', ('until_t', X, Y, 1, 2)),
                   ('eventually[1000ms,2000](x)', ('eventually_t', X, 1, 2)), ('always[0ms,2000](once[1s,1000ms](x))', ('always_t', ('once_t', X, 1, 1), 0, 2))]:
        g = ('raw', txt, f)
        h = hor(g)
        for e in (2, 4):
            out.append(ob('C16', 'dt', 'dt/units/%s/N1=%d+%d' % (txt, h + 2, e), f=g, N1=h + 2, ext=e))
    # a sampling period coarser than the unit the bounds are written in: the NUMBER written as a bound is larger than the bound in samples,
    # and the trace grows from below that number to above it (a bound must only ever be compared with a trace length in samples)
    for txt, f in [('(x) since[0:10] (y)', ('since_t', X, Y, 0, 2)), ('once[0:10](x)', ('once_t', X, 0, 2)), ('historically[5:10](x)', ('historically_t', X, 1, 2)),
                   ('eventually[0:10](x)', ('eventually_t', X, 0, 2)), ('always[5:10](x)', ('always_t', X, 1, 2)), ('(x) until[0:10] (y)', ('until_t', X, Y, 0, 2)),
                   ('(x) unless[5:10] (y)', ('unless_t', X, Y, 1, 2))]:
        g = ('raw', txt, f)
        for N1, e in ([(7, 5)] if quick else [(7, 5), (4, 8), (9, 2)]):
            out.append(ob('C16', 'dt', 'dt/coarse-period/%s/P=5s/N1=%d+%d' % (txt, N1, e), f=g, N1=N1, ext=e, period=[5, 's'], wall=600))
    from .. import pool
    for i, g in enumerate(pool.ALL):
        h = hor(g)
        for N1, e in ([(h + 2, 3), (7, 5)] if quick else [(h + 1, 1), (h + 2, 3), (7, 5), (4, 8)]):
            if N1 > h:
                out.append(ob('C16', 'dt', 'dt/pool/%s/P=%s/unit=%s/N1=%d+%d' % (g[1], g[3] or '-', g[4] or '-', N1, e), f=g, N1=N1, ext=e, same=bool(i % 2), wall=600))
    # ONE specification object evaluating first the trace and then its extension (the usual way of monitoring a growing log)
    for f in f1:
        if quick and not (refsem.has_future(f) or f[0] in ('once', 'historically', 'since', 'prev', 'rise', 'once_t', 'since_t')):
            continue
        h = hor(f)
        out.append(ob('C16', 'dt', 'dt/same-object/%s/N1=%d+2' % (text(f), h + 2), f=f, N1=h + 2, ext=2, same=True))
    for f in dfs + [('and', X, Y), ('sub', X, Y), ('since', X, Y), ('once', ('once', X)), ('historically', ('or', X, ('once', Y)))]:
        two = len(variables(f)) > 1
        out.append(ob('C16', 'ct', 'ct/same-object/%s' % text(f), f=f, ns=[2, 2] if two else [3], ext=[1, 1] if two else [1], same=True,
                      max_paths=60000, wall=(300 if quick else 1500)))
    seen = set()
    return [o for o in out if not (o['oid'] in seen or seen.add(o['oid']))]
