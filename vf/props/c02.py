"""C02 — discrete-time online update i equals offline sample i."""
import collections

from .. import dt, refsem, symx
from ..core import ob
from ..refsem import T, text, variables, rho, X, Y, Z

INFO = {
    'functions': ['rtamt.semantics.abstract_discrete_time_online_interpreter.AbstractDiscreteTimeOnlineInterpreter.update',
                  'rtamt.semantics.abstract_online_interpreter.AbstractOnlineUpdateVisitor.visit*',
                  'rtamt.semantics.stl.discrete_time.online.ast_visitor (operator construction)',
                  'rtamt.semantics.stl.discrete_time.online.*_operation.update (all)',
                  'rtamt.semantics.arithmetic.discrete_time.online.*_operation.update (all)',
                  'offline evaluator (as the property\'s own oracle) and rho_dt'],
    'bounds': {'quick': 'past/Boolean/arithmetic F1 x bounds x N in 1,2,3,5,7 (N > 2(end+1) for the longest); F2 sample; F-dup; '
                        'unit-level step of the 4 bounded operations from an arbitrary buffer state, end<=3; near-duplicate operators (bounds differing only in a fraction or a unit) in one specification; the future-free notation cases of vf/pool.py',
               'thorough': 'bounds 0<=a<=b<=4,(0,6),(3,6), N up to 14; F2 exhaustive; F3 seeded; unit step end<=6'},
    'outside': 'histories longer than N updates (covered only by the unit-level inductive step for the bounded operations)',
    'assumptions': ['arithmetic operands finite; Boolean/temporal operands extended reals'],
    'explanation': 'N symbolic updates = every monitor state reachable in <=N steps for all values; z3 decides update_i == evaluate()[i] == rho',
}

PAST_UN = ['not', 'neg', 'abs', 'rise', 'fall', 'prev', 's_prev', 'once', 'historically']
PAST_UNT = ['once_t', 'historically_t']
PAST_BIN = ['and', 'or', 'implies', 'iff', 'xor', 'add', 'sub', 'mul', 'div', 'leq', 'lt', 'geq', 'gt', 'eq', 'neq', 'since']
PAST_BINT = ['since_t']
PAST_OPS = PAST_UN + PAST_UNT + PAST_BIN + PAST_BINT


def h_online(f, N, ext=True, kind='combined', itext=None, period=None):
    """itext: the text given to rtamt when it is not the canonical rendering of f (bounds written as durations; f has them in samples)"""
    f = T(f)
    vs = sorted(variables(f))
    uf = refsem.has(f, {'sqrt', 'exp', 'ln', 'pow', 'log'})

    def body(env):
        A = env.A
        son = dt.make_spec(kind, 'out = ' + (itext or text(f)), vs, period=period, f=f)
        soff = dt.make_spec('offline~', 'out = ' + (itext or text(f)), vs, period=period, f=f)
        w = dt.trace(env, vs, N, ext=ext and not uf)
        if uf:
            for v in vs:
                for x in w[v]:
                    env.assume(A.And(A.le(2, x), A.le(x, 8)))
        got = dt.online(son, w, N)
        env.observe('online', got)
        off = [p[1] for p in dt.offline(soff, w, N)]
        ref = rho(A, f, w, N)
        return dt.eq_list(A, 'offline', got, off) + dt.eq_list(A, 'rho', got, ref)
    body.uf = uf
    return body


def h_online_obj(f, N):
    """object-valued signal: x, y are fields of one variable of a user type; online update i == offline sample i == rho"""
    f = T(f)
    vs = sorted(variables(f))

    def body(env):
        A = env.A
        son, mk = dt.obj_spec('combined', f)
        soff, _ = dt.obj_spec('offline', f)
        w = dt.trace(env, vs, N, ext=False)
        got = [son.update(i, [('m', mk(w, i))]) for i in range(N)]
        env.observe('online', got)
        off = [p[1] for p in soff.evaluate({'time': list(range(N)), 'm': [mk(w, i) for i in range(N)]})]
        return dt.eq_list(A, 'offline', got, off) + dt.eq_list(A, 'rho', got, rho(A, f, w, N))
    return body


def h_unit_window(op, begin, end):
    """one update() of a bounded operation from an ARBITRARY buffer state (inductive step)"""
    def body(env):
        A = env.A
        from rtamt.semantics.stl.discrete_time.online.once_timed_operation import OnceTimedOperation
        from rtamt.semantics.stl.discrete_time.online.historically_timed_operation import HistoricallyTimedOperation
        from rtamt.semantics.stl.discrete_time.online.since_timed_operation import SinceTimedOperation
        from rtamt.semantics.stl.discrete_time.online.precedes_timed_operation import PrecedesTimedOperation
        if op in ('once', 'historically'):
            o = (OnceTimedOperation if op == 'once' else HistoricallyTimedOperation)(begin, end)
            buf = [env.ext('b%d' % i) for i in range(end + 1)]
            o.buffer.clear()
            o.buffer.extend(buf)
            s = env.ext('s')
            got = o.update(s)
            env.observe('out', got)
            hist = buf[1:] + [s]                     # hist[j] is the sample of age end-j
            win = [hist[end - age] for age in range(begin, end + 1)]
            want = A.max(win) if op == 'once' else A.min(win)
            res = [('out', A.eq(got, want)), ('buflen', A.bool(len(o.buffer) == end + 1))]
            for j in range(end + 1):
                res.append(('buf@%d' % j, A.eq(o.buffer[j], hist[j])))
            return res
        o = (SinceTimedOperation if op == 'since' else PrecedesTimedOperation)(begin, end)
        bl = [env.ext('l%d' % i) for i in range(end + 1)]
        br = [env.ext('r%d' % i) for i in range(end + 1)]
        L, R = (o.buffer_sample_left, o.buffer_sample_right) if op == 'since' else (o.buffer[0], o.buffer[1])
        L.clear(); L.extend(bl); R.clear(); R.extend(br)
        sl, sr = env.ext('sl'), env.ext('sr')
        got = o.update(sl, sr)
        env.observe('out', got)
        hl, hr = bl[1:] + [sl], br[1:] + [sr]        # index j = age end-j
        if op == 'since':
            # max over witness ages a in [begin,end] of min(r(age a), l(ages a-1 .. 0))
            cands = [A.min([hr[end - a]] + [hl[end - x] for x in range(0, a)]) for a in range(begin, end + 1)]
        else:
            # precedes (pastified until): now-end is the evaluation point; witness offset d in [begin,end] after it,
            # left must hold at offsets 0..d-1
            cands = [A.min([hr[d]] + [hl[x] for x in range(0, d)]) for d in range(begin, end + 1)]
        want = A.max(cands)
        res = [('out', A.eq(got, want))]
        for j in range(end + 1):
            res.append(('bufL@%d' % j, A.eq(L[j], hl[j])))
            res.append(('bufR@%d' % j, A.eq(R[j], hr[j])))
        return res
    return body


def h_crosshair(fn, timeout=150):
    """Second engine: CrossHair (its own z3-backed symbolic execution of the SAME real operation classes) on one
    unit-level contract of vf/xhair/contracts.py.  'Confirmed over all paths' corroborates; a counterexample is re-run
    concretely and reported as a violation only if the contract function really returns False; 'Not confirmed' /
    'Unable to meet precondition' make no claim (recorded in the observation, never counted as success)."""
    def body(env):
        import inspect
        import os
        import re
        import subprocess
        import sys
        A = env.A
        env.real('dummy')
        from ..xhair import contracts
        f = getattr(contracts, fn)
        line = inspect.getsourcelines(f)[1]
        path = contracts.__file__
        e = dict(os.environ)
        e['PYTHONPATH'] = os.pathsep.join(sys.path)
        p = subprocess.run([sys.executable, '-m', 'crosshair', 'check', '--report_all', '--per_condition_timeout', str(timeout),
                            '%s:%d' % (path, line + 1)], capture_output=True, text=True, env=e, timeout=timeout * 3)
        out = p.stdout + p.stderr
        if 'Confirmed over all paths' in out:
            env.observe('crosshair', 1)
            return [('crosshair-confirmed', A.true)]
        m = re.search(r'false when calling (\w+\(.*\))', out)
        if m:
            call = m.group(1)
            try:
                ok = eval('contracts.' + call, {'contracts': contracts, 'inf': float('inf'), 'nan': float('nan')})
            except Exception:
                ok = True
            env.observe('crosshair', 0)
            return [('crosshair-counterexample %s' % call, A.bool(bool(ok)))]
        env.observe('crosshair', -1)
        return [('crosshair-no-claim', A.true)]
    return body


def h_unit_state(op):
    """one update() of an unbounded stateful operation from an ARBITRARY state (inductive step): the state is the
    previous output (once/historically/since) or the previous input (prev/s_prev/rise/fall), any extended real"""
    def body(env):
        A = env.A
        import importlib
        mod = {'once': 'once_operation.OnceOperation', 'historically': 'historically_operation.HistoricallyOperation',
               'since': 'since_operation.SinceOperation', 'prev': 'previous_operation.PreviousOperation',
               's_prev': 'strong_previous_operation.StrongPreviousOperation', 'rise': 'rise_operation.RiseOperation',
               'fall': 'fall_operation.FallOperation'}[op]
        m, c = mod.split('.')
        o = getattr(importlib.import_module('rtamt.semantics.stl.discrete_time.online.' + m), c)()
        st = env.ext('state')
        s1, s2 = env.ext('s1'), env.ext('s2')
        if op in ('once', 'historically', 'since'):
            o.prev_out = st
        else:
            o.prev = st
        got = o.update(s1, s2) if op == 'since' else o.update(s1)
        env.observe('out', got)
        want = {'once': lambda: A.max([s1, st]), 'historically': lambda: A.min([s1, st]),
                'since': lambda: A.max([A.min([s1, st]), s2]), 'prev': lambda: st, 's_prev': lambda: st,
                'rise': lambda: A.min([-st, s1]), 'fall': lambda: A.min([st, -s1])}[op]()
        new_state = o.prev_out if op in ('once', 'historically', 'since') else o.prev
        return [('out', A.eq(got, want)), ('state', A.eq(new_state, got if op in ('once', 'historically', 'since') else s1))]
    return body


STATEFUL = [('prev', X), ('s_prev', X), ('once', X), ('historically', X), ('rise', X), ('fall', X),
            ('once_t', X, 0, 1), ('once_t', X, 1, 2), ('historically_t', X, 1, 2), ('since', X, Y), ('since_t', X, Y, 0, 1)]


def fdup():
    out = []
    for f in STATEFUL:
        for k in ('and', 'or', 'add', 'implies'):
            out.append((k, f, f))
        out.append(('and', f, ('not', f)))
        out.append(('or', f, ('once', f)))
        out.append(('or', f, ('prev', f)))
        out.append(('and', ('and', f, Z), f))
    return out


def _ext_ok(f):
    return not refsem.has(f, set(refsem.ARITH) | set(refsem.PRED) | {'iff', 'xor'})


def obligations(tier, rng):
    quick = tier == 'quick'
    bounds = refsem.BOUNDS_Q if quick else refsem.BOUNDS_T
    out = []
    for f in refsem.f1(bounds, ops=set(PAST_OPS) | {'sqrt', 'exp', 'ln', 'pow', 'log'}):
        end = max([c for c in f[1:] if isinstance(c, int)] or [0])
        Ns = sorted(set([1, 2, 3, 5, 2 * (end + 1) + 1] if quick else [1, 2, 3, 4, 5, 6, 8, 2 * (end + 1) + 2]))
        for N in Ns:
            out.append(ob('C02', 'online', 'F1/%s/N=%d' % (text(f), N), f=f, N=N, ext=_ext_ok(f),
                          kind='combined' if N % 2 else 'online'))
    nodiv = [k for k in PAST_OPS if k != 'div']      # division of two symbolic terms is kept at depth 1 (z3 NRA answers unknown on nestings)
    f2 = refsem.depth2(nodiv, nodiv, [(0, 1), (1, 2)] if quick else [(0, 1), (1, 2), (2, 3)])
    if quick:
        f2 = rng.sample(f2, len(f2) * 8 // 100)
    for f in f2:
        for N in ([5] if quick else [4, 7]):
            # extended-real operands only on the shorter trace: on N=7 the nested (k,r) encoding makes single queries exceed
            # the 60 s solver timeout (measured: x4-5 per extra sample for '(x since y) since z')
            out.append(ob('C02', 'online', 'F2/%s/N=%d' % (text(f), N), f=f, N=N, ext=_ext_ok(f) and N <= 5))
    for f in fdup():
        for N in ([4] if quick else [3, 6]):
            out.append(ob('C02', 'online', 'Fdup/%s/N=%d' % (text(f), N), f=f, N=N, ext=_ext_ok(f), sweep=20))
    # near-duplicates: two stateful operators over the same operand whose texts differ only in the fractional part of a bound or in a
    # unit (period 500 ms: bounds are durations in s, the formula for the oracle has them in samples)
    near = []
    for k, rnd in (('once_t', 'once[%s,%s](x)'), ('historically_t', 'historically[%s,%s](x)'), ('since_t', '(x) since[%s,%s] (y)')):
        mk = (lambda a, b, k=k: (k, X, a, b)) if k != 'since_t' else (lambda a, b, k=k: (k, X, Y, a, b))
        for (t1, b1), (t2, b2) in [((('0', '1'), (0, 2)), (('0.5', '1.5'), (1, 3))), ((('0.5', '1'), (1, 2)), (('0', '1.5'), (0, 3))),
                                   ((('1', '2'), (2, 4)), (('1.5', '2.5'), (3, 5))), ((('0', '1s'), (0, 2)), (('0', '1500ms'), (0, 3))),
                                   ((('500ms', '1s'), (1, 2)), (('500ms', '1500ms'), (1, 3)))]:
            for con in (('or', 'add') if quick else ('or', 'and', 'add', 'implies')):
                for order in ((0, 1), (1, 0)):
                    pr = [(rnd % t1, mk(*b1)), (rnd % t2, mk(*b2))]
                    (ta, fa), (tb, fb) = pr[order[0]], pr[order[1]]
                    near.append((refsem.text((con, ('var', 'P'), ('var', 'Q'))).replace('P', ta).replace('Q', tb), (con, fa, fb)))
    for itext, f in near:
        for N in ([7] if quick else [5, 9]):
            out.append(ob('C02', 'online', 'Fnear/%s/N=%d' % (itext, N), f=f, N=N, ext=False, itext=itext, period=[500, 'ms']))
    # object-valued signals: sub-formulas that are identical except for the FIELD they read
    C0 = ('const', 0.0)
    for f in [('and', ('geq', X, C0), ('geq', Y, C0)), ('sub', ('abs', X), ('abs', Y)), ('or', ('prev', ('geq', Y, C0)), ('geq', X, C0)), ('since', ('geq', X, C0), ('geq', Y, C0)),
              ('and', ('once_t', X, 0, 1), ('once_t', Y, 0, 1)), ('geq', X, Y), ('implies', ('rise', ('geq', X, C0)), ('once', ('geq', Y, C0)))]:
        out.append(ob('C02', 'online_obj', 'object-fields/%s/N=4' % text(f), f=f, N=4))
    from .. import pool
    for i, g in enumerate(pool.PAST):
        for N in ([7] if quick else [4, 9]):
            out.append(ob('C02', 'online', 'pool/%s/P=%s/unit=%s/N=%d' % (g[1], g[3] or '-', g[4] or '-', N), f=g, N=N, ext=False, kind='online' if i % 2 else 'combined'))
    for i in range(40 if quick else 500):
        f = refsem.gen_formula(rng, rng.choice([3, 4]), nodiv, [(0, 1), (1, 2), (0, 2)], ('x', 'y'))
        N = rng.choice([3, 5, 6])
        out.append(ob('C02', 'online', 'F3/%d/%s/N=%d' % (i, text(f), N), f=f, N=N, ext=False))
    if not quick:
        for fn in ('once_0_2', 'historically_1_2', 'since_0_1', 'since_unbounded', 'precedes_0_1', 'rise_op', 'unit_transformer'):
            out.append(ob('C02', 'crosshair', 'crosshair/%s' % fn, fn=fn, validate=0, wall=900))
    for op in ('once', 'historically', 'since', 'prev', 's_prev', 'rise', 'fall'):
        out.append(ob('C02', 'unit_state', 'unit/%s (arbitrary state)' % op, op=op))
    for op in ('once', 'historically', 'since', 'precedes'):
        for end in range(0, 4 if quick else 7):
            for begin in range(0, end + 1):
                out.append(ob('C02', 'unit_window', 'unit/%s[%d,%d]' % (op, begin, end), op=op, begin=begin, end=end))
    seen = set()
    res_ = [o for o in out if not (o['oid'] in seen or seen.add(o['oid']))]
    from .. import core as _core
    res_ = res_ + _core.make_twins(res_, [('F1/once[0,1](x)/N=3', 'window'), ('F1/(x) and (y)/N=3', 'minmax'), ('F1/prev(x)/N=3', 'pad'), ('F1/(x) since (y)/N=3', 'since')]) + _core.make_forkmode(res_, ['F1/historically[0,2](x)/N=3', 'F1/(x) since[0,1] (y)/N=3', 'unit/once[0,2]', 'unit/since[1,2]'])
    return res_
