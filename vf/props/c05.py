"""C05 — dense-time online output does not depend on how the input is chunked."""
import itertools

from .. import ct, refct, refsem, symx
from ..core import ob
from ..refsem import T, text, variables, X, Y

INFO = {
    'functions': ['rtamt.semantics.abstract_dense_time_online_interpreter.AbstractDenseTimeOnlineInterpreter.update',
                  'rtamt.semantics.abstract_online_interpreter.AbstractOnlineUpdateVisitor', 'rtamt.semantics.stl.dense_time.online.ast_visitor',
                  'rtamt.semantics.stl.dense_time.online.*_operation.update (all)', 'rtamt.semantics.arithmetic.dense_time.online.*_operation.update',
                  'rtamt.semantics.stl.dense_time.online.intersection.intersection',
                  'offline dense-time evaluate() on the whole signal (the property\'s own oracle) and rho_ct'],
    'bounds': {'quick': 'every dense online operator, n=3 samples per signal (2+2 binary), EVERY split into consecutive update() batches (incl. per-variable '
                        'unaligned splits for binary operators), time-stamps and values symbolic; bounds (0,1)(1,2); depth-2 nestings on n=3; update() calls that bring nothing for a variable (explicit empty batch, or one variable of a binary operand running ahead); wide windows ([0,3],[1,4],[2,3]) over 5 samples on concrete regular and irregular time grids (values symbolic), 3 chunkings; operands that start at different instants (late-start family: batches in which the operands do not overlap); operations over two constants and repeated constants in several updates',
               'thorough': 'n=4 (3+2, 3+3 binary), all 2^(n-1) chunkings; more bounds; pastified bounded-future specifications'},
    'outside': 'more than 4 samples per variable with symbolic time-stamps (6 on concrete grids); batches that repeat a time-stamp',
    'assumptions': ['time-stamps strictly increasing, first sample at time 0 (free start in thorough)', 'values finite reals',
                    'the concatenated output is read as a right-continuous step function on [first output time, last output time]'],
    'explanation': 'schedules (chunkings) are enumerated completely for the stated n; for each, z3 decides for all time-stamps, values and instants tau that the '
                   'concatenated online output equals the offline robustness of the whole signal (real offline evaluator and rho_ct)',
}

UN = ['not', 'neg', 'abs', 'once', 'historically']
UNT = ['once_t', 'historically_t']
BIN = ['and', 'or', 'implies', 'iff', 'xor', 'add', 'sub', 'mul', 'leq', 'lt', 'geq', 'gt', 'eq', 'neq', 'since']
BINT = ['since_t']


def compositions(n):
    """all ways to cut n consecutive samples into non-empty consecutive batches: 2^(n-1)"""
    out = []
    for mask in range(1 << (n - 1)):
        cur, parts = [0], []
        for i in range(1, n):
            if mask & (1 << (i - 1)):
                parts.append(cur)
                cur = []
            cur.append(i)
        parts.append(cur)
        out.append(parts)
    return out


def pad(parts, U, where):
    """insert empty batches so that the schedule has U update calls"""
    parts = [list(p) for p in parts]
    while len(parts) < U:
        parts.insert(where % (len(parts) + 1), [])
    return parts


def schedules(ns, aligned_only=False):
    """joint schedules for several variables: each variable's samples are cut independently; schedules are aligned by
    update-call index (shorter ones padded with empty batches at the end / the beginning)"""
    per = [compositions(n) for n in ns]
    out = []
    for combo in itertools.product(*per):
        U = max(len(c) for c in combo)
        if aligned_only and len(set(len(c) for c in combo)) > 1:
            continue
        out.append([pad(c, U, len(c)) for c in combo])
        if any(len(c) < U for c in combo):
            out.append([pad(c, U, 0) for c in combo])
    # dedupe
    seen, res = set(), []
    for s in out:
        k = repr(s)
        if k not in seen:
            seen.add(k)
            res.append(s)
    return res


def h_chunk(f, ns, sched, start='zero', pastify=False, oracle='both', grid=None, grids=None, cover=False, sem=None, io=None):
    f = T(f)
    vs = sorted(variables(f))
    op = f[0]
    simple = all(c[0] == 'var' for c in refsem.kids(f)) and op not in ('var',)
    bounds = [c for c in f[1:] if isinstance(c, int)]
    a, b = (bounds + [None, None])[:2]
    cache = {}
    from .c16 import dense_hor
    h = dense_hor(f) if pastify else 0

    uf = refsem.has(f, {'pow', 'div', 'sqrt', 'exp', 'ln', 'log'})

    def body(env):
        A = env.A
        kw = {}
        if sem:
            from .c06 import _sem
            kw = dict(io=io, semantics=_sem(sem))          # an interface-aware semantics: chunking must not matter there either
        son = ct.make_spec('combined' if sem else 'online~', 'out = ' + text(f), vs, pastify=pastify, **kw)
        sigs = {v: ct.signal(env, v, n, start, grid=(grids[k] if grids else grid)) for k, (v, n) in enumerate(zip(vs, ns))}
        if uf:
            for v in vs:
                for smp in sigs[v]:
                    env.assume(A.And(A.le(2, smp[1]), A.le(smp[1], 8)))          # pow/div/...: operands inside the domain of the function
        outs = []
        U = len(sched[0])
        for u in range(U):
            outs.append(son.update(*[[v, [list(sigs[v][i]) for i in sched[k][u]]] for k, v in enumerate(vs)]))
        if not all(isinstance(o, list) and all(isinstance(p, (list, tuple)) and len(p) == 2 for p in o) for o in outs):
            env.observe('cat', [])
            return [('cat-shape', A.false)]          # an update() that returns something that is not a list of [time, value] pairs
        cat = [list(p) for o in outs for p in o]
        env.observe('cat', cat)
        res = ct.wellformed(A, cat, 'cat')
        if not cat:
            # cover: signals that all start at 0, a future-free formula: once every sample has been fed the output is not empty ...
            return res + ([('covers-the-signal', A.false)] if cover else [])
        sl = [sigs[v] for v in vs]
        S, E = refct.domain(A, sl)
        if cover:
            # ... and starts where the common domain starts
            res.append(('covers-the-signal', A.le(cat[0][0], S)))
        tau = env.real('tau')
        env.assume(A.And(A.le(cat[0][0], tau), A.le(tau, cat[-1][0]), A.le(S + h, tau), A.le(tau, E)))
        got = refct.val(A, cat, tau)
        if oracle in ('both', 'offline'):
            # after pastify() the online output at tau is the offline robustness of the ORIGINAL formula at tau - h
            soff = ct.make_spec('combined' if sem else 'offline~', 'out = ' + text(f), vs, **kw)
            off = soff.evaluate(*[[v, [list(p) for p in sigs[v]]] for v in vs])
            if not off:
                res.append(('offline-empty', A.false))
            else:
                res.append(('offline', A.eq(got, refct.val(A, off, tau - h))))
                # every returned sample, taken by itself, reports the robustness of its own instant (a sample that is
                # superseded by a later one with the same time-stamp must not carry a different value)
                for i, smp in enumerate(cat):
                    inside = A.And(A.le(S + h, smp[0]), A.le(smp[0], E))
                    res.append(('sample@%d' % i, A.Or(A.Not(inside), A.eq(smp[1], refct.val(A, off, smp[0] - h)))))
        if oracle in ('both', 'rho') and simple and not pastify:
            if len(vs) == 2 and len(refsem.kids(f)) == 2:
                want = symx.memo(env, cache, 'want', lambda: refct.ref_binary(A, op, sigs['x'], sigs['y'], tau, S, a, b))
            else:
                want = symx.memo(env, cache, 'want', lambda: refct.ref_unary(A, op, sigs['x'], tau, a, b))
            res.append(('rho_ct', A.eq(got, want)))
        return res
    body.uf = uf
    return body


def _sname(sched):
    return '|'.join(';'.join(','.join(str(i) for i in b) or '-' for b in v) for v in sched)


def obligations(tier, rng):
    quick = tier == 'quick'
    out = []
    bq = [(0, 1), (1, 2)] if quick else [(0, 1), (1, 2), (1, 1), (0, 2)]
    un = [(k, X) for k in UN] + [(k, X, a, b) for k in UNT for a, b in bq]
    for f in un:
        for n in ([3] if quick else [2, 3, 4]):
            for sched in schedules([n]):
                out.append(ob('C05', 'chunk', 'F1/%s/n=%d/%s' % (text(f), n, _sname(sched)), f=f, ns=[n], sched=sched,
                              max_paths=20000, wall=900))
    if not quick:
        for f in un:
            for sched in schedules([3]):
                out.append(ob('C05', 'chunk', 'F1-free-start/%s/n=3/%s' % (text(f), _sname(sched)), f=f, ns=[3], sched=sched, start='free',
                              max_paths=20000, wall=900))
    bi = [(k, X, Y) for k in BIN] + [(k, X, Y, a, b) for k in BINT for a, b in bq[:2]]
    for f in bi:
        heavy = f[0] in ('since', 'since_t')
        for ns in ([[2, 2]] if quick or heavy else [[2, 2], [3, 2]]):
            sch = schedules(ns)
            if quick and f[0] not in ('and', 'geq', 'since', 'sub', 'since_t'):
                sch = [sch[0], sch[-1]] + rng.sample(sch[1:-1], 2)
            for sched in sch:
                out.append(ob('C05', 'chunk', 'F1/%s/n=%s/%s' % (text(f), ns, _sname(sched)), f=f, ns=ns, sched=sched,
                              max_paths=40000, wall=1500))
    # nestings: relational against the real offline evaluator
    nest = [('once', ('not', X)), ('historically', ('abs', X)), ('not', ('once', X)), ('once_t', ('not', X), 0, 1),
            ('and', ('once', X), ('historically', X)), ('or', ('not', X), ('once', X)), ('geq', ('abs', X), ('const', 1.0)),
            ('once', ('geq', X, ('const', 0.0))), ('historically', ('once', X)), ('since', ('not', X), X)]
    for f in nest:
        for n in ([3] if quick else [3, 4]):
            for sched in schedules([n]):
                out.append(ob('C05', 'chunk', 'F2/%s/n=%d/%s' % (text(f), n, _sname(sched)), f=f, ns=[n], sched=sched,
                              oracle='offline', max_paths=20000, wall=900))
    # a binary stateful operation whose operand is read again by a sibling (the operand list is shared): every chunking of 2+2 (3+2) samples
    GXc, GYc = ('geq', X, ('const', 0.0)), ('geq', Y, ('const', 0.0))
    for f in [('or', ('since', X, Y), ('historically', X)), ('and', ('since', GXc, GYc), ('once', GXc)), ('or', ('historically', Y), ('since', X, Y)),
              ('and', ('and', X, Y), ('once', X)), ('or', ('sub', X, Y), ('historically', Y))]:
        for ns in ([[2, 2]] if quick else [[2, 2], [3, 2]]):
            sch = schedules(ns)
            for sched in ([sch[0], sch[-1], sch[len(sch) // 2]] if quick else sch):
                out.append(ob('C05', 'chunk', 'sibling/%s/n=%s/%s' % (text(f), ns, _sname(sched)), f=f, ns=ns, sched=sched, oracle='offline', cover=True, max_paths=60000, wall=1500))
    # all depth-2 nestings of the unary online operators over one variable (relational: real offline evaluator)
    un1 = [lambda g: ('not', g), lambda g: ('abs', g), lambda g: ('once', g), lambda g: ('historically', g),
           lambda g: ('once_t', g, 0, 1), lambda g: ('historically_t', g, 1, 2), lambda g: ('geq', g, ('const', 0.5))]
    nest2 = [o(i(X)) for o in un1 for i in un1]
    nest2 += [('and', o(X), i(X)) for o in un1[2:6] for i in un1[2:6] if o is not i] + [('since', o(X), ('not', X)) for o in un1[2:6]]
    if quick:
        keep = [f for f in nest2 if f[0] == 'since']          # stateful binary operator fed by operators that re-emit boundary samples
        nest2 = keep + rng.sample([f for f in nest2 if f[0] != 'since'], 10)
    for f in nest2:
        for sched in (schedules([3]) if (not quick or f[0] == 'since') else schedules([3])[1:3]):
            out.append(ob('C05', 'chunk', 'F2x/%s/n=3/%s' % (text(f), _sname(sched)), f=f, ns=[3], sched=sched, oracle='offline',
                          max_paths=40000, wall=900))
    # pastified bounded-future specifications: output shifted by the horizon
    fut = [('eventually_t', X, 0, 1), ('always_t', X, 1, 2), ('eventually_t', X, 1, 2), ('always_t', X, 0, 1),
           ('and', ('once_t', X, 0, 1), ('eventually_t', X, 0, 1)), ('not', ('eventually_t', ('not', X), 0, 1)),
           ('eventually_t', ('always_t', X, 0, 1), 0, 1), ('or', ('always_t', X, 0, 1), ('historically', X))]
    for f in (fut[:5] if quick else fut):
        for n in ([3] if quick else [3, 4]):
            for sched in schedules([n]):
                out.append(ob('C05', 'chunk', 'Fpast/%s/n=%d/%s' % (text(f), n, _sname(sched)), f=f, ns=[n], sched=sched, pastify=True,
                              oracle='offline', max_paths=40000, wall=900))
    # windows that span SEVERAL sampling steps: five/six samples on a concrete time grid (values symbolic), so that the window
    # bookkeeping of the timed operators holds three or more segments at once
    wide = [('once_t', X, 0, 3), ('historically_t', X, 0, 3), ('once_t', X, 1, 4), ('historically_t', X, 1, 4), ('historically_t', X, 2, 3),
            ('once_t', X, 0, 2), ('or', ('historically_t', ('geq', X, ('const', 1.0)), 1, 4), ('not', X))]
    widep = [('always_t', X, 0, 3), ('eventually_t', X, 0, 3), ('always_t', X, 1, 3)]
    grids = [[0, 1, 2, 3, 4], [0, 1, 2, 3, 4, 5]] if not quick else [[0, 1, 2, 3, 4]]
    grids_irr = [[0, 0.5, 2, 2.5, 4.5], [0, 2, 3, 3.5, 4, 7]]
    for fam, fs, pst in (('wide', wide, False), ('widep', widep, True)):
        for f in fs:
            for g in grids + (grids_irr[:1] if quick else grids_irr):
                n = len(g)
                sch = schedules([n])
                pick = [sch[0], sch[-1]] + ([sch[len(sch) // 3], sch[len(sch) // 2]] if not quick else [sch[5]])
                if quick and f[0] == 'or':
                    pick = pick[1:2] if g == grids[0] else []
                for sched in pick:
                    out.append(ob('C05', 'chunk', '%s/%s/grid=%s/%s' % (fam, text(f), ','.join(str(t) for t in g), _sname(sched)), f=f, ns=[n], sched=sched,
                                  pastify=pst, oracle='offline', grid=g, max_paths=40000, wall=900))
    widb = [('since_t', X, Y, 0, 3), ('since_t', X, Y, 1, 3)]
    for f in ([] if quick else widb):
        g = [0, 1, 2, 3]
        sch = schedules([4, 4], aligned_only=True)
        for sched in ([sch[0], sch[-1]] if quick else [sch[0], sch[-1], sch[len(sch) // 2]]):
            out.append(ob('C05', 'chunk', 'wide/%s/grid=0,1,2,3/%s' % (text(f), _sname(sched)), f=f, ns=[4, 4], sched=sched, oracle='offline', grid=g,
                          max_paths=40000, wall=900))
    # empty batches: an update() that brings nothing new for a variable (explicitly, or because the other variable of a binary operand
    # runs ahead) must not disturb the pending state of the operators above it
    def with_gaps(parts):
        res = []
        for pos in range(1, len(parts)):
            res.append([list(q) for q in parts[:pos]] + [[]] + [list(q) for q in parts[pos:]])
        return res
    emp = [(k, X, a, b) for k in UNT for a, b in [(0, 2), (1, 2)]] + [('once', X), ('historically', X), ('not', ('once_t', X, 0, 1)),
                                                                    ('since_t', X, ('not', X), 0, 1), ('historically_t', ('abs', X), 0, 2)]
    for f in emp:
        g = [0, 1, 2, 3]
        for parts in [[[0, 1], [2, 3]], [[0], [1], [2, 3]], [[0, 1, 2], [3]]]:
            for sch in with_gaps(parts)[:(1 if quick and f[0] not in UNT else 3)]:
                out.append(ob('C05', 'chunk', 'empty/%s/grid=0,1,2,3/%s' % (text(f), _sname([sch])), f=f, ns=[4], sched=[sch], oracle='offline', grid=g,
                              max_paths=40000, wall=900))
        if not quick:
            for parts in [[[0], [1, 2]], [[0, 1], [2]]]:
                for sch in with_gaps(parts):
                    out.append(ob('C05', 'chunk', 'empty/%s/n=3/%s' % (text(f), _sname([sch])), f=f, ns=[3], sched=[sch], oracle='offline',
                                  max_paths=40000, wall=900))
    AB = ('and', ('geq', X, ('const', 0.0)), ('geq', Y, ('const', 0.0)))
    ahead = [('historically_t', AB, 0, 2), ('once_t', AB, 1, 2), ('once_t', ('sub', X, Y), 0, 2), ('historically', AB)] + ([] if quick else [('since_t', AB, ('not', Y), 0, 1)])
    ahead_p = [('always_t', AB, 0, 2), ('eventually_t', ('sub', X, Y), 1, 2)]
    scheds = [[[[0, 1, 2], [3], []], [[0], [1, 2], [3]]],          # x ahead of y
              [[[0], [1], [2, 3]], [[0, 1, 2], [], [3]]],          # y ahead of x
              [[[0, 1], [], [2, 3]], [[0], [1, 2, 3], []]],
              [[[0, 1], [2], [3]], [[0, 1], [2, 3], []]],          # one operand's batch ends where the other one's batch starts
              [[[0, 1], [2, 3], []], [[0, 1], [2], [3]]]]
    # every binary dense online operation directly over two variables of which one lags behind for one update
    ahead += [(k, X, Y) for k in BIN if k != 'since' or not quick]
    ahead += [('pow', X, Y), ('div', X, Y), ('once_t', ('geq', ('pow', X, Y), ('const', 4.0)), 0, 1)]        # arithmetic with both operands varying
    for fam, fs, pst in (('ahead', ahead, False), ('aheadp', ahead_p, True)):
        for f in fs:
            for sc in ((scheds[:2] + (scheds[3:] if f[0] in ('pow', 'sub', 'and') else [])) if quick else scheds):
                out.append(ob('C05', 'chunk', '%s/%s/grid=0,1,2,3/%s' % (fam, text(f), _sname(sc)), f=f, ns=[4, 4], sched=sc, pastify=pst, oracle='offline',
                              grid=[0, 1, 2, 3], max_paths=40000, wall=900))
    # operands that START at different instants (one sensor comes up later): batches in which the two operands of a binary operation do not
    # overlap at all, overlap partly, or in which the late one arrives only in a later update; the common domain starts at the later start
    late = [(k, X, Y) for k in (BIN if not quick else ['and', 'sub', 'implies', 'since', 'geq'])]
    late += [('once_t', ('and', X, Y), 0, 1), ('historically', ('or', X, Y))] + ([] if quick else [('since_t', X, Y, 0, 1), ('since_t', X, Y, 1, 2)])
    lgrids = [([0, 1, 2, 3], [2, 3, 4, 5]), ([2, 3, 4, 5], [0, 1, 2, 3]), ([0, 1, 2, 3], [1.5, 2.5, 3.5, 4.5])]
    lscheds = [[[[0, 1], [2, 3]], [[0, 1], [2, 3]]],               # first batch: the operands do not overlap at all
               [[[0, 1, 2], [3]], [[0], [1, 2, 3]]],               # first batch: the late operand starts where the early one ends
               [[[0, 1, 2, 3]], [[0, 1, 2, 3]]],                   # everything at once
               [[[0], [1], [2], [3]], [[0], [1], [2], [3]]]]       # one sample of each per update
    for f in late:
        for gi, (gx, gy) in enumerate(lgrids if not quick else lgrids[:2]):
            for sc in (lscheds if not quick or f[0] in ('and', 'since') else lscheds[:2]):
                out.append(ob('C05', 'chunk', 'late%d/%s/%s' % (gi, text(f), _sname(sc)), f=f, ns=[4, 4], sched=sc, oracle='offline', grids=[gx, gy],
                              max_paths=40000, wall=900))
    # constants: an operation over TWO constants, a constant on either side, the same constant twice - fed in several updates
    K = lambda v: ('const', v)
    cc = [('geq', X, ('sub', K(2.0), K(1.0))), ('geq', ('add', X, ('mul', K(2.0), K(3.0))), K(1.0)), ('leq', ('sub', K(2.0), K(1.0)), X),
          ('and', ('geq', X, K(1.0)), ('geq', K(2.0), K(1.0))), ('and', ('geq', X, K(2.0)), ('leq', Y, K(2.0))), ('once_t', ('geq', X, ('add', K(2.0), K(1.0))), 0, 1),
          ('or', ('geq', K(1.0), X), ('once', ('gt', X, K(1.0)))), ('since', ('geq', X, K(0.5)), ('geq', K(0.5), X))]
    for f in cc:
        two = len(variables(f)) > 1
        for parts in ([[0, 1], [2, 3]], [[0], [1], [2], [3]], [[0, 1, 2, 3]]):
            sc = [parts, parts] if two else [parts]
            out.append(ob('C05', 'chunk', 'const/%s/grid=0,1,2,3/%s' % (text(f), _sname(sc)), f=f, ns=[4, 4] if two else [4], sched=sc, oracle='offline', grid=[0, 1, 2, 3],
                          max_paths=40000, wall=900))
    # interface-aware semantics (the predicate reports +-inf / 0): every chunking of three samples
    for p in [('eq', X, K(1.0)), ('neq', X, K(1.0)), ('geq', X, K(1.0)), ('lt', X, K(1.0)), ('once_t', ('eq', X, K(1.0)), 0, 1), ('historically', ('neq', X, K(1.0)))]:
        for sem_, io_ in [('output_robustness', {'x': 'input'}), ('input_robustness', {'x': 'output'}), ('input_vacuity', {'x': 'output'})]:
            if quick and (sem_ != 'output_robustness' and p[0] not in ('eq', 'neq')):
                continue
            for sched in schedules([3] if quick else [4]):
                out.append(ob('C05', 'chunk', 'ia/%s/%s/n=3/%s' % (sem_, text(p), _sname(sched)), f=p, ns=[3] if quick else [4], sched=sched, oracle='offline', sem=sem_, io=io_,
                              max_paths=40000, wall=900))
    # three levels: a bounded past operator over a bounded past operator with a > 0 (what pastify() produces for a bounded-future
    # operator next to a sibling of larger horizon), alone and as the operand of a binary operation, six samples in two or more batches
    H1 = lambda g: ('historically_t', g, 0, 1)
    O1 = lambda g: ('once_t', g, 0, 1)
    deep = [H1(('once_t', X, 1, 1)), O1(('once_t', X, 1, 1)), O1(('historically_t', X, 1, 1)), H1(('once_t', X, 2, 2)), H1(('historically_t', X, 1, 2)),
            ('and', H1(('once_t', X, 1, 1)), Y), ('add', O1(('once_t', X, 1, 1)), Y), ('or', Y, H1(('once_t', X, 2, 2)))]
    g6 = [0, 1, 2, 3, 4, 5]
    for f in deep:
        two = len(variables(f)) > 1
        if quick and two:
            # five samples, one schedule (1-2 min each on six samples: thorough tier)
            if f[0] == 'or':
                continue
            parts = [[0, 1, 2], [3, 4]]
            out.append(ob('C05', 'chunk', 'deep/%s/grid=0,1,2,3,4/%s' % (text(f), _sname([parts, parts])), f=f, ns=[5, 5], sched=[parts, parts], oracle='offline',
                          grid=g6[:5], max_paths=40000, wall=900))
            continue
        for parts in ([[0, 1, 2], [3, 4, 5]], [[0, 1, 2, 3], [4], [5]], [[0], [1], [2], [3], [4], [5]]):
            if quick and len(parts) == 3:
                continue
            sc = [parts, parts] if two else [parts]
            out.append(ob('C05', 'chunk', 'deep/%s/grid=0,1,2,3,4,5/%s' % (text(f), _sname(sc)), f=f, ns=[6, 6] if two else [6], sched=sc, oracle='offline', grid=g6,
                          max_paths=60000, wall=1500))
    res_ = out
    from .. import core as _core
    res_ = res_ + _core.make_twins(res_, [('F1/once[0,1](x)/n=3/0;1;2', 'ctwindow'), ('F1/(x) and (y)/n=[2, 2]/0,1|0,1', 'ctminmax'), ('F1/historically(x)/n=3/0,1;2', 'ctminmax')]) + _core.make_forkmode(res_, [])
    return res_
