"""C04 — dense-time offline robustness equals the dense-time semantics (one operator over arbitrary step signals)."""
from .. import ct, refct, refsem, symx
from ..core import ob
from ..refsem import T, text, X, Y

INFO = {
    'functions': ['rtamt.semantics.abstract_dense_time_offline_interpreter.AbstractDenseTimeOfflineInterpreter.evaluate',
                  'rtamt.semantics.stl.dense_time.offline.ast_visitor: visit* and *_operation functions (all)',
                  'rtamt.semantics.stl.dense_time.offline.intersection.intersection + value methods',
                  'rtamt.semantics.dense_time_interpreter.DenseTimeInterpreter.time_unit_transformer'],
    'bounds': {'quick': 'every dense-time operator, n=3 samples (unary) / 2+2, 3+2 samples (binary), time-stamps AND values symbolic, '
                        'unaligned sampling, start at 0 and free start; bounds (0,1)(1,2)(1,1); evaluation instant tau symbolic over the common domain',
               'thorough': 'n=4 (unary), 3+3 (binary), 2+2/3+2 for since/until; bounds + (0,0)(2,3)(0,3)(1,3)'},
    'outside': 'more samples per signal; nested dense-time formulas have no closed-form oracle here (covered relationally by C05/C16/C18/C19 and by the '
               'well-formedness of every operator\'s output, which is what the next operator assumes)',
    'assumptions': ['input time-stamps strictly increasing, first >= 0', 'operands finite reals',
                    'bounded since: operands share their first time-stamp (the property does not fix the reading of a partially defined operand)',
                    'out[0].time <= domain start is demanded, not equality (test_once_bounded_3 pins [0,-inf] for a signal starting at 2)'],
    'explanation': 'time-stamps, values and the evaluation instant are z3 reals; per path the output list has concrete length and z3 decides '
                   'val(out,tau)==rho_ct(op,inputs,tau) for all tau in the domain',
}

UN = ['not', 'neg', 'abs', 'once', 'historically', 'eventually', 'always']
UNT = ['once_t', 'historically_t', 'eventually_t', 'always_t']
BIN = ['and', 'or', 'implies', 'iff', 'xor', 'add', 'sub', 'mul', 'leq', 'lt', 'geq', 'gt', 'eq', 'neq', 'since', 'until']
BINT = ['since_t', 'until_t']


def h_op(f, ns, start='zero', kind='offline', same_start=False, grids=None, itext=None, ext=False):
    f = T(f)
    op = f[0]
    binary = op in BIN or op in BINT
    bounds = [c for c in f[1:] if isinstance(c, int)]
    a, b = (bounds + [None, None])[:2]
    cache = {}

    def body(env):
        A = env.A
        vs = ['x', 'y'] if binary else ['x']
        # itext: the same bounds written with units (the oracle keeps using the bounds in seconds)
        s = ct.make_spec(kind, 'out = ' + (text(f).replace('[%d,%d]' % (a, b), itext) if itext else text(f)), vs)
        if grids:
            # concrete (unaligned) time-stamps, symbolic values: more samples per signal at the price of fixed sampling instants
            sigs = [ct.signal(env, v, len(g), start, grid=g, ext=ext) for v, g in zip(vs, grids)]
        else:
            sigs = [ct.signal(env, v, n, start, ext=ext) for v, n in zip(vs, ns)]
        if binary and same_start and not grids:
            env.assume(A.eq(sigs[0][0][0], sigs[1][0][0]))
        out = s.evaluate(*[[v, [list(p) for p in sg]] for v, sg in zip(vs, sigs)])
        env.observe('out', out)
        res = ct.wellformed(A, out)
        S, E = refct.domain(A, sigs)
        if not out:
            return res + [('empty-output-only-if-empty-domain', A.lt(E, S))]
        res.append(('covers-start', A.Or(A.lt(E, S), A.le(out[0][0], S))))
        tau = env.real('tau')
        env.assume(A.And(A.le(S, tau), A.le(tau, E)))
        if binary:
            want = symx.memo(env, cache, 'want', lambda: refct.ref_binary(A, op, sigs[0], sigs[1], tau, S, a, b))
        else:
            want = symx.memo(env, cache, 'want', lambda: refct.ref_unary(A, op, sigs[0], tau, a, b))
        got = refct.val(A, out, tau)
        res.append(('rho_ct', A.eq(got, want)))
        return res
    return body


def h_shift(f, grids, shift):
    """time invariance: the same signals, once starting at 0 and once moved by `shift` (so that they start later than every bound of the
    formula): z3 decides for all values and all instants of the domain that the results agree up to the shift.  Needs no closed-form
    oracle, so it reaches arbitrary nestings; the unshifted run is checked against the oracles by the other families."""
    f = T(f)
    vs = sorted(refsem.variables(f))

    def body(env):
        A = env.A
        sig0 = {v: ct.signal(env, v, len(g), 'zero', grid=g) for v, g in zip(vs, grids)}
        s0 = ct.make_spec('offline', 'out = ' + text(f), vs)
        s1 = ct.make_spec('offline', 'out = ' + text(f), vs)
        o0 = s0.evaluate(*[[v, [list(p) for p in sig0[v]]] for v in vs])
        o1 = s1.evaluate(*[[v, [[p[0] + shift, p[1]] for p in sig0[v]]] for v in vs])
        o0, o1 = [list(p) for p in o0], [list(p) for p in o1]
        env.observe('shifted', o1)
        res = ct.wellformed(A, o0, 'at-zero') + ct.wellformed(A, o1, 'shifted')
        S, E = refct.domain(A, [sig0[v] for v in vs])
        if not o0 or not o1:
            return res + [('both-empty', A.bool(not o0 and not o1))]
        res.append(('covers-start', A.le(o1[0][0], S + shift)))
        tau = env.real('tau')
        env.assume(A.And(A.le(S, tau), A.le(tau, E)))
        res.append(('time-invariant', A.eq(refct.val(A, o1, tau + shift), refct.val(A, o0, tau))))
        return res
    return body


def h_nested(f, ns, start='zero', twice=False):
    """nested formulas of the fragment that has a closed-form oracle (refct.rho_expr): pointwise operators over any
    variables, unary temporal operators over pointwise one-variable operands"""
    f = T(f)
    vs = sorted(refsem.variables(f))

    def body(env):
        A = env.A
        s = ct.make_spec('offline~', 'out = ' + text(f), vs)
        if twice is True:
            first = {v: ct.signal(env, 'first_' + v, 2, 'zero') for v in vs}     # an earlier evaluate() of the same object on other data
            s.evaluate(*[[v, [list(p) for p in first[v]]] for v in vs])
        sigs = {v: ct.signal(env, v, n, start) for v, n in zip(vs, ns)}
        args = [[v, [list(p) for p in sigs[v]]] for v in vs]
        if twice == 'same':
            s.evaluate(*args)          # the caller evaluates the very same data objects a second time
        out = s.evaluate(*args)
        out = [list(p) for p in out]
        env.observe('out', out)
        res = ct.wellformed(A, out)
        S, E = refct.domain(A, [sigs[v] for v in vs])
        if not out:
            return res + [('empty-output-only-if-empty-domain', A.lt(E, S))]
        res.append(('covers-start', A.Or(A.lt(E, S), A.le(out[0][0], S))))
        tau = env.real('tau')
        env.assume(A.And(A.le(S, tau), A.le(tau, E)))
        res.append(('rho_ct', A.eq(refct.val(A, out, tau), refct.rho_expr(A, f, sigs, tau))))
        return res
    return body


C05 = ('const', 0.5)
NESTED = [('once_t', ('not', X), 0, 1), ('always_t', ('geq', X, C05), 1, 2), ('eventually_t', ('abs', X), 0, 1), ('historically', ('leq', X, C05)),
          ('and', ('once', X), ('historically', X)), ('not', ('once_t', X, 0, 1)), ('or', ('always_t', X, 0, 1), X),
          ('sub', ('once_t', X, 0, 1), ('historically_t', X, 0, 1)), ('implies', ('once', ('geq', X, C05)), ('always_t', ('leq', X, ('const', 2.0)), 0, 1)),
          ('and', ('once_t', X, 0, 1), ('always_t', Y, 0, 1)), ('geq', ('eventually_t', X, 0, 1), ('once', Y)), ('eventually', ('and', ('geq', X, C05), ('leq', X, ('const', 2.0)))),
          ('always', ('neg', X)), ('or', ('eventually', X), ('always', ('not', X))),
          ('once', ('once', X)), ('historically', ('historically', X)), ('once', ('historically', X)), ('historically', ('once', X)),
          ('once', ('and', ('once', X), ('neg', X))), ('historically', ('or', ('historically', X), ('abs', X))), ('eventually', ('always', X)),
          ('always', ('eventually', ('not', X))), ('once', ('eventually', X)), ('once_t', ('once', X), 0, 1), ('eventually_t', ('historically', X), 0, 1)]


def obligations(tier, rng):
    quick = tier == 'quick'
    bq = [(0, 1), (1, 2), (1, 1)] if quick else [(0, 1), (1, 2), (1, 1), (0, 0), (2, 3), (0, 3), (1, 3)]
    out = []
    nu = [2, 4] if quick else [2, 3, 4, 5]
    for start in ('zero', 'free'):
        for n in nu:
            for k in UN:
                out.append(ob('C04', 'op', '%s/%s/n=%d' % (start, text((k, X)), n), f=(k, X), ns=[n], start=start, max_paths=20000, wall=600))
            for k in UNT:
                for a, b in bq:
                    f = (k, X, a, b)
                    out.append(ob('C04', 'op', '%s/%s/n=%d' % (start, text(f), n), f=f, ns=[n], start=start, max_paths=20000, wall=600))
        for k in BIN:
            heavy = k in ('since', 'until')
            for ns in ([[2, 2]] if quick else ([[2, 2], [3, 2]] if heavy else [[2, 2], [3, 2], [3, 3]])):
                f = (k, X, Y)
                out.append(ob('C04', 'op', '%s/%s/n=%s' % (start, text(f), ns), f=f, ns=ns, start=start, max_paths=60000, wall=1500,
                              kind='combined' if k in ('and', 'geq') else 'offline'))
        for k in BINT:
            for a, b in ([(0, 1), (1, 2)] if quick else [(0, 1), (1, 2), (1, 1), (0, 2)]):
                f = (k, X, Y, a, b)
                same = (k == 'since_t')
                if quick and start == 'free' and k == 'until_t':
                    continue            # 1-2 min each; thorough tier only
                out.append(ob('C04', 'op', '%s/%s/n=[2, 2]%s' % (start, text(f), '/same-start' if same else ''), f=f, ns=[2, 2],
                              start=start, same_start=same, max_paths=60000, wall=1500))
    GRIDS = [([0, 2, 2.5, 6], [0, 1, 1.5, 6]), ([0, 1, 3, 4.5], [0, 0.5, 2, 5]), ([0, 0.5, 1, 4], [0, 3, 3.5, 4])]
    GRIDS3 = [([0, 2, 2.5], [0, 1, 1.5]), ([0, 1, 3], [0, 0.5, 2])]
    for k, bd in [('since', None), ('until', None), ('since_t', (1, 3)), ('until_t', (1, 3)), ('since_t', (1, 2)), ('until_t', (0, 2))]:
        f = (k, X, Y) if bd is None else (k, X, Y, bd[0], bd[1])
        if quick:
            if bd is not None and bd[0] > 0:
                for gi, (gx, gy) in enumerate(GRIDS3):
                    out.append(ob('C04', 'op', 'grid3-%d/%s/n=[3, 3]' % (gi, text(f)), f=f, ns=[3, 3], grids=[gx, gy], max_paths=100000, wall=600))
            continue            # 4+4 samples on a grid take 2-5 min per obligation: thorough tier
        for gi, (gx, gy) in enumerate(GRIDS):
            out.append(ob('C04', 'op', 'grid%d/%s/n=[4, 4]' % (gi, text(f)), f=f, ns=[4, 4], grids=[gx, gy], max_paths=100000, wall=1500))
    # signals that start LATER than every bound of the formula (a sensor that comes up at t = 5): single operators and nestings of past over
    # future operators and of future over past ones, judged by time invariance against the same signals starting at 0
    E2, G2, O1, H1 = (lambda g: ('eventually_t', g, 0, 2)), (lambda g: ('always_t', g, 0, 2)), (lambda g: ('once_t', g, 1, 2)), (lambda g: ('historically_t', g, 0, 1))
    shf = [G2(X), E2(X), ('once', G2(X)), ('historically', E2(X)), ('once', ('always_t', X, 1, 2)), ('historically', ('eventually_t', X, 1, 3)),
           ('since', G2(X), ('geq', X, C05)), O1(G2(X)), ('historically_t', E2(X), 0, 1), E2(('once', X)), G2(O1(X)), ('once', ('not', E2(X))),
           ('and', ('once', G2(X)), ('historically', X)), ('once', E2(G2(X))), ('until_t', X, ('once', X), 0, 2), ('and', G2(X), ('once', X)), ('eventually_t', ('historically_t', X, 0, 1), 1, 2), ('not', G2(('not', X))), ('or', E2(X), ('historically', ('not', X)))]
    shf2 = [('once', ('until_t', X, Y, 0, 2)), ('historically', ('or', E2(X), Y)), ('since', G2(X), Y), ('once', ('and', G2(X), ('eventually_t', Y, 1, 2)))]
    g1 = [0, 0.125, 1, 3.5, 4]           # dyadic, so that grid + shift is exact in doubles
    PASTOPS = {'once', 'historically', 'since', 'once_t', 'historically_t', 'since_t'}
    FUTB = {'eventually_t', 'always_t', 'until_t', 'unless_t'}

    def pof(f):
        # a past operator with a bounded-future operator somewhere below it (known finding KF-C04-late-start-past-over-future)
        return (f[0] in PASTOPS and refsem.has(f, FUTB)) or any(pof(c) for c in refsem.kids(f))
    for f in (shf if not quick else [g for g in shf if not pof(g)] + [g for g in shf if pof(g)][:4]):
        fam = 'shift-pof' if pof(f) else 'shift'
        out.append(ob('C04', 'shift', '%s/%s/grid=%s/+5' % (fam, text(f), g1), f=f, grids=[g1], shift=5, max_paths=60000, wall=900))
    for f in (shf2 if not quick else shf2[:2]):
        fam = 'shift-pof' if pof(f) else 'shift'
        out.append(ob('C04', 'shift', '%s/%s/grids/+5' % (fam, text(f)), f=f, grids=[[0, 0.125, 2.5], [0, 1, 3]], shift=5, max_paths=60000, wall=900))
    for f in NESTED:
        two = len(refsem.variables(f)) > 1
        for ns in ([[2, 2]] if two else ([[3]] if quick else [[3], [4]])):
            out.append(ob('C04', 'nested', 'nested/%s/n=%s' % (text(f), ns), f=f, ns=ns, max_paths=60000, wall=900))
    for f in [('once', X), ('historically', ('not', X)), ('once_t', X, 0, 1), ('always_t', X, 1, 2), ('eventually', X), ('and', ('once', X), ('historically', X)),
              ('geq', X, C05), ('once', ('once', X)), ('and', ('once_t', X, 0, 1), ('always_t', Y, 0, 1))]:
        two = len(refsem.variables(f)) > 1
        out.append(ob('C04', 'nested', 'reuse/%s' % text(f), f=f, ns=[2, 2] if two else [3], twice=True, max_paths=60000, wall=900))
    # bounds written with units (both bounds with different units, one-sided, the same unit twice)
    for k in UNT + BINT:
        f = (k, X, 1, 2) if k in UNT else (k, X, Y, 1, 2)
        for itext in (['[1000ms,2s]', '[1s,2000ms]'] if quick else ['[1000ms,2s]', '[1s,2000ms]', '[1000ms,2000ms]', '[1,2s]', '[1s,2]', '[1000000us,2s]']):
            out.append(ob('C04', 'op', 'units/%s/%s/n=%s' % (k, itext, [2, 2] if k in BINT else [3]), f=f, ns=[2, 2] if k in BINT else [3], itext=itext,
                          max_paths=60000, wall=900))
    # a variable read twice by pointwise operators next to a variable with other break-points; and the same data objects evaluated twice
    C2 = ('const', 2.0)
    rep = [('and', ('leq', X, Y), ('leq', Y, C2)), ('or', ('sub', X, Y), Y), ('and', ('and', X, Y), Y), ('implies', ('geq', X, Y), ('neg', Y)),
           ('add', ('mul', X, C2), Y), ('xor', ('iff', X, Y), X), ('geq', ('sub', X, Y), ('sub', Y, X)), ('always_t', ('and', ('leq', X, Y), ('leq', Y, C2)), 0, 1)]
    for f in rep:
        if f[0] == 'always_t':
            continue        # not in the closed-form fragment (two-variable operand): covered by C16/C19
        for ns in ([[2, 3]] if quick else [[2, 3], [3, 2], [3, 3]]):
            out.append(ob('C04', 'nested', 'repeated-var/%s/n=%s' % (text(f), ns), f=f, ns=ns, start='free', max_paths=60000, wall=900))
    for f in [('and', X, Y), ('leq', X, Y), ('sub', X, Y), ('or', ('not', X), Y), ('implies', X, Y)] + ([] if quick else [('iff', X, Y), ('mul', X, Y), ('gt', X, Y)]):
        out.append(ob('C04', 'nested', 'same-data-twice/%s/n=[2, 3]' % text(f), f=f, ns=[2, 3], start='free', twice='same', max_paths=60000, wall=900))
        out.append(ob('C04', 'nested', 'same-data-twice/%s/n=[3, 2]' % text(f), f=f, ns=[3, 2], start='free', twice='same', max_paths=60000, wall=900))
    for k in BINT:
        for a, b in [(1, 2)]:
            f = (k, X, Y, a, b)
            out.append(ob('C04', 'op', 'zero/%s/n=[1, 3]%s' % (text(f), '/same-start' if k == 'since_t' else ''), f=f, ns=[1, 3], start='zero',
                          same_start=(k == 'since_t'), max_paths=60000, wall=1500))
            out.append(ob('C04', 'op', 'zero/%s/n=[3, 1]%s' % (text(f), '/same-start' if k == 'since_t' else ''), f=f, ns=[3, 1], start='zero',
                          same_start=(k == 'since_t'), max_paths=60000, wall=1500))
            if not quick:
              out.append(ob('C04', 'op', 'zero/%s/n=[3, 2]%s' % (text(f), '/same-start' if k == 'since_t' else ''), f=f, ns=[3, 2], start='zero',
                          same_start=(k == 'since_t'), max_paths=100000, wall=1500))
    # operand values over the EXTENDED reals: the bounded past operators pad with -inf/+inf, so an operator above them is fed infinite
    # segments (per-operator correctness on arbitrary operand signals is what carries to nested formulas)
    for k in ['not', 'once', 'historically', 'eventually', 'always']:
        out.append(ob('C04', 'op', 'ext/%s/n=3' % text((k, X)), f=(k, X), ns=[3], ext=True, max_paths=20000, wall=600))
    for k in UNT:
        for a, b in ([(1, 2)] if quick else [(0, 1), (1, 2)]):
            out.append(ob('C04', 'op', 'ext/%s/n=3' % text((k, X, a, b)), f=(k, X, a, b), ns=[3], ext=True, max_paths=20000, wall=600))
    for k in ['and', 'or', 'implies', 'since', 'until', 'leq']:
        for ns in ([[2, 2]] if quick else [[2, 2], [3, 2], [2, 3]]):
            out.append(ob('C04', 'op', 'ext/%s/n=%s' % (text((k, X, Y)), ns), f=(k, X, Y), ns=ns, ext=True, max_paths=60000, wall=1500))
    for k in BINT:
        out.append(ob('C04', 'op', 'ext/%s/n=[2, 2]%s' % (text((k, X, Y, 0, 1)), '/same-start' if k == 'since_t' else ''), f=(k, X, Y, 0, 1), ns=[2, 2], ext=True,
                      same_start=(k == 'since_t'), max_paths=60000, wall=1500))
    res_ = out
    from .. import core as _core
    res_ = res_ + _core.make_twins(res_, [('zero/once[0,1](x)/n=2', 'ctwindow'), ('zero/always[1,2](x)/n=2', 'ctminmax'), ('zero/(x) and (y)/n=[2, 2]', 'ctminmax'), ('free/eventually[0,1](x)/n=2', 'ctwindow')]) + _core.make_forkmode(res_, ['zero/(x) and (y)/n=[2, 2]', 'zero/once(x)/n=2'])
    return res_
