"""C07 — robustness sign and magnitude are sound w.r.t. Boolean satisfaction."""
from .. import ct, dt, refct, refsem, symx
from ..core import ob
from ..refsem import T, text, variables, rho, sat, X, Y, Z

INFO = {
    'functions': ['discrete offline visitor and online operations (as C01/C02)', 'rtamt.semantics.stl.discrete_time.online.predicate_operation',
                  'dense offline visitor / online operations incl. predicate_operation (as C04/C05)'],
    'bounds': {'quick': 'pastified online monitors of bounded-future F1 and until/unless/eventually/always nestings: sign at step i vs sat at i-h, N=h+3; sign: iff/xor-free F1 over predicate atoms x bounds x N in 2,3,5 (offline, online for past formulas), sample of F2; inductive step per operator '
                        'with arbitrary operand values and operand truths constrained only by soundness, N in 1..4; magnitude: F1/F2 over x~c atoms with a second '
                        'symbolic trace within |rho|; dense time: unary temporal/Boolean operators over one-variable predicates at symbolic tau, n<=3; bounds with a >= 2 (instants at which the whole window lies before the trace); inductive step on the notation cases of vf/pool.py; punctual windows [1,1], [2,2] of all seven bounded operators (sign and step)',
               'thorough': 'F2 exhaustive, F3 seeded, N up to 7; dense n=4; QF_FP bridging lemma'},
    'outside': 'iff/xor (excluded by the property); dense-time since/until; float rounding except the bridging lemma fp.sub(x,c)>0 <=> x>c (thorough tier)',
    'assumptions': ['Boolean semantics of STL as in the README with weak prev/next, strong s_prev/s_next'],
    'explanation': 'z3 decides for all sample values: (rho>0 => sat) and (rho<0 => not sat); and for all perturbed traces within |rho|: same verdict',
}

C = ('const', 0.5)
ATOMS = {'x': ('geq', X, C), 'y': ('lt', Y, ('const', 1.0)), 'z': ('leq', Z, ('const', -0.5))}
ATOMS2 = {'x': ('gt', X, C), 'y': ('eq', Y, ('const', 1.0)), 'z': ('neq', Z, ('const', 0.0))}


def subst(f, atoms):
    f = T(f)
    if f[0] == 'var':
        return atoms[f[1]]
    if f[0] == 'const':
        return ('geq', Y, ('const', f[1]))        # a bare constant is not a Boolean atom: make it a predicate
    return tuple(subst(c, atoms) if isinstance(c, tuple) else c for c in f)


def _run(s, w, N, mode):
    if mode == 'offline':
        return [p[1] for p in dt.offline(s, w, N)]
    return dt.online(s, w, N)


def sound(A, label, r, b):
    """(r > 0 => b) and (r < 0 => not b)"""
    return [('%s-pos' % label, A.Or(A.Not(A.lt(0, r)), b)), ('%s-neg' % label, A.Or(A.Not(A.lt(r, 0)), A.Not(b)))]


def h_sign(f, N, mode, sem=None, io=None):
    """sem/io: an interface-aware semantics - its values (+-inf, 0 at insensitive predicates) are sound for the Boolean semantics too"""
    f = T(f)
    vs = sorted(variables(f))

    def body(env):
        A = env.A
        if sem:
            from .c06 import _sem
            s = dt.make_spec('combined', 'out = ' + text(f), vs, io=io, semantics=_sem(sem))
        else:
            s = dt.make_spec('combined', 'out = ' + text(f), vs, f=f)
        w = dt.trace(env, vs, N)
        got = _run(s, w, N, mode)
        env.observe('out', got)
        st = sat(A, f, w, N)
        res = []
        for t in range(N):
            res += sound(A, 'sign@%d' % t, got[t], st[t])
        return res
    return body


def h_pastified(f, N):
    """online monitor of a bounded-future formula: update i reports on instant i-h; its sign must be sound for sat at i-h"""
    f = T(f)
    vs = sorted(variables(f))
    h = refsem.hor(f)

    def body(env):
        A = env.A
        s = dt.make_spec('online', 'out = ' + text(f), vs, pastify=True, f=f)
        w = dt.trace(env, vs, N)
        got = dt.online(s, w, N)
        env.observe('out', got)
        st = sat(A, f, w, N)
        res = []
        from .c03 import past_reach
        reach = past_reach(f)           # a past operator above a future one still sees start-up values there (C03's known finding)
        for i in range(h + reach, N):
            res += sound(A, 'pastified@%d' % i, got[i], st[i - h])
        return res
    return body


def h_step(f, N, mode):
    """inductive step: operands are variables with ARBITRARY (extended-real) values; their truth values are free Booleans
    constrained only by soundness; the operator's output must be sound w.r.t. its Boolean definition on those truths"""
    f = T(f)
    vs = sorted(variables(f))

    def body(env):
        A = env.A
        s = dt.make_spec('combined', 'out = ' + text(f), vs, f=f)
        w = dt.trace(env, vs, N, ext=True)
        truth = {v: [env.boolean('b_%s%d' % (v, i)) for i in range(N)] for v in vs}
        for v in vs:
            for i in range(N):
                env.assume(A.And(A.Or(A.Not(A.lt(0, w[v][i])), truth[v][i]), A.Or(A.Not(A.lt(w[v][i], 0)), A.Not(truth[v][i]))))
        got = _run(s, w, N, mode)
        env.observe('out', got)
        st = sat(A, f, w, N, truth)
        res = []
        for t in range(N):
            res += sound(A, 'step@%d' % t, got[t], st[t])
        return res
    return body


def h_magnitude(f, N, mode):
    f = T(f)
    vs = sorted(variables(f))

    def body(env):
        A = env.A
        s = dt.make_spec('combined', 'out = ' + text(f), vs, f=f)
        w = dt.trace(env, vs, N)
        w2 = dt.trace(env, vs, N, prefix='p_')
        got = _run(s, w, N, mode)
        env.observe('out', got)
        st = sat(A, f, w, N)
        st2 = sat(A, f, w2, N)
        res = []
        for t in range(N):
            r = got[t]
            ar = abs(A.lift(r))
            if refsem.TWIN == 'mag':
                ar = ar * 2            # vacuity twin: perturbations up to 2|rho| are claimed harmless - must be refuted
            close = A.And(*[A.lt(abs(w2[v][i] - w[v][i]), ar) for v in vs for i in range(N)])
            same = A.Or(A.And(st[t], st2[t]), A.And(A.Not(st[t]), A.Not(st2[t])))
            res.append(('magnitude@%d' % t, A.Or(A.Not(close), A.eq(r, 0), same)))
        return res
    return body


def h_dense(f, ns, mode, grids=None, each=False):
    """grids: concrete time-stamps per variable (values stay symbolic); each: online, one sample of every variable per update() call"""
    f = T(f)
    vs = sorted(variables(f))

    def body(env):
        A = env.A
        s = ct.make_spec('combined', 'out = ' + text(f), vs)
        sigs = {v: ct.signal(env, v, n, 'zero', grid=(grids[k] if grids else None)) for k, (v, n) in enumerate(zip(vs, ns))}
        args = [[v, [list(p) for p in sigs[v]]] for v in vs]
        if mode == 'offline':
            out = s.evaluate(*args)
        elif not each:
            out = s.update(*args)
        else:
            out = []
            for i in range(max(ns)):
                out += s.update(*[[v, [list(sigs[v][i])] if i < len(sigs[v]) else []] for v in vs])
        out = [list(p) for p in out]
        env.observe('out', out)
        if not out:
            # fed sample by sample, a monitor whose operands overlap too little may have nothing to report yet
            return [('nonempty', A.bool(each))]
        S, E = refct.domain(A, [sigs[v] for v in vs])
        tau = env.real('tau')
        env.assume(A.And(A.le(out[0][0], tau), A.le(S, tau), A.le(tau, E)))
        if mode == 'online':
            env.assume(A.le(tau, out[-1][0]))
        r = refct.val(A, out, tau)
        b = refct.sat_expr(A, f, sigs, tau)
        res = sound(A, 'dense', r, b)
        if each:
            # every returned sample, taken by itself, is sound for its own instant
            for i, smp in enumerate(out):
                inside = A.And(A.le(S, smp[0]), A.le(smp[0], E))
                bi = refct.sat_expr(A, f, sigs, smp[0])
                res += [(l, A.Or(A.Not(inside), c)) for l, c in sound(A, 'dense-sample@%d' % i, smp[1], bi)]
        return res
    return body


def h_fpbridge(which):
    """QF_FP bridging lemma: for finite IEEE binary64 x, c the rounded difference has the sign of the real one, so the
    sign soundness shown over the reals survives rounding for one-variable predicates x ~ c."""
    def body(env):
        import z3
        A = env.A
        env.real('dummy')
        x, c = z3.FP('fp_x', z3.Float64()), z3.FP('fp_c', z3.Float64())
        fin = z3.And(z3.Not(z3.fpIsNaN(x)), z3.Not(z3.fpIsInf(x)), z3.Not(z3.fpIsNaN(c)), z3.Not(z3.fpIsInf(c)))
        d = z3.fpSub(z3.RNE(), x, c)
        zero = z3.FPVal(0.0, z3.Float64())
        claim = {'pos': z3.fpGT(d, zero) == z3.fpGT(x, c), 'neg': z3.fpLT(d, zero) == z3.fpLT(x, c),
                 'zero': z3.fpEQ(d, zero) == z3.fpEQ(x, c)}[which]
        s = z3.Solver()
        s.set('timeout', 300000)
        s.add(fin, z3.Not(claim))
        r = s.check()
        if r == z3.unknown:
            raise symx.Inconclusive('QF_FP bridge lemma: solver unknown')
        return [('fp-bridge-' + which, A.bool(r == z3.unsat))]
    return body


PAST = set(refsem.PAST) | {'not', 'and', 'or', 'implies'}


def is_past(f):
    return not refsem.has_future(f)


def obligations(tier, rng):
    quick = tier == 'quick'
    bounds = [(0, 0), (0, 1), (1, 2), (0, 2), (2, 3), (3, 4)] if quick else refsem.BOUNDS_T     # a >= 2: instants at which the whole window lies before the trace
    ops = ['not', 'rise', 'fall', 'prev', 's_prev', 'next', 's_next', 'once', 'historically', 'eventually', 'always',
           'once_t', 'historically_t', 'eventually_t', 'always_t', 'and', 'or', 'implies', 'since', 'until', 'unless',
           'since_t', 'until_t', 'unless_t']
    f1 = refsem.f1(bounds, ops=set(ops))
    out = []
    Ns = [2, 3, 5] if quick else [1, 2, 3, 4, 5, 7]
    for f in f1:
        for N in Ns:
            modes = ['offline'] + (['online'] if is_past(f) else [])
            for mode in modes:
                for an, atoms in (('a', ATOMS), ('b', ATOMS2)):
                    if quick and an == 'b' and N != 3:
                        continue
                    g = subst(f, atoms)
                    out.append(ob('C07', 'sign', 'sign/%s/%s/N=%d' % (mode, text(g), N), f=g, N=N, mode=mode))
                if N <= 4:
                    out.append(ob('C07', 'step', 'step/%s/%s/N=%d' % (mode, text(f), N), f=f, N=N, mode=mode))
                if N <= 3 or not quick:
                    g = subst(f, ATOMS)
                    out.append(ob('C07', 'magnitude', 'magnitude/%s/%s/N=%d' % (mode, text(g), N), f=g, N=N, mode=mode, wall=300))
    # punctual windows [a,a] with a >= 1 (an implementation may special-case begin == end)
    if quick:
        for k in ('once_t', 'historically_t', 'eventually_t', 'always_t', 'since_t', 'until_t', 'unless_t'):
            for a in (1, 2):
                f = (k, X, a, a) if k in ('once_t', 'historically_t', 'eventually_t', 'always_t') else (k, X, Y, a, a)
                N = a + 3
                for mode in ['offline'] + (['online'] if is_past(f) else []):
                    out.append(ob('C07', 'sign', 'sign/%s/%s/N=%d' % (mode, text(subst(f, ATOMS)), N), f=subst(f, ATOMS), N=N, mode=mode))
                    out.append(ob('C07', 'step', 'step/%s/%s/N=%d' % (mode, text(f), N), f=f, N=N, mode=mode))
    f2 = refsem.depth2(ops, ops, [(0, 1), (1, 2)])
    if quick:
        f2 = rng.sample(f2, len(f2) * 4 // 100)
    for f in f2:
        N = 4
        g = subst(f, ATOMS)
        mode = 'online' if (is_past(f) and rng.random() < 0.5) else 'offline'
        out.append(ob('C07', 'sign', 'sign/%s/%s/N=%d' % (mode, text(g), N), f=g, N=N, mode=mode))
        out.append(ob('C07', 'step', 'step/%s/%s/N=%d' % (mode, text(f), 3), f=f, N=3, mode=mode))
        out.append(ob('C07', 'magnitude', 'magnitude/%s/%s/N=%d' % (mode, text(g), 3), f=g, N=3, mode=mode, wall=300))
    # interface-aware semantics: whatever they report for a predicate (its robustness, +-inf, 0), a strictly positive / negative verdict is
    # still sound; strict and non-strict comparisons, samples on the threshold are the solver's business
    LT, GT = ('lt', X, C), ('gt', X, C)
    for g in [LT, GT, ('not', LT), ('and', GT, ('geq', Y, C)), ('implies', GT, ('geq', Y, C)), ('once_t', LT, 0, 1), ('historically', GT), ('or', ('leq', X, C), ('gt', Y, C)),
              ('always_t', GT, 0, 1), ('since', ('geq', X, C), LT)]:
        for sem in ('output_robustness', 'input_robustness', 'input_vacuity', 'output_vacuity'):
            for io in ({'x': 'input', 'y': 'output'}, {'x': 'output', 'y': 'input'}):
                for mode in (['offline'] if refsem.has_future(g) else ['offline', 'online']):
                    if quick and sem.endswith('vacuity') and (g[0] not in ('lt', 'and') or mode == 'online'):
                        continue
                    out.append(ob('C07', 'sign', 'sign-ia/%s/%s/x=%s/%s/N=3' % (mode, sem, io['x'], text(g)), f=g, N=3, mode=mode, sem=sem, io=io))
    # online monitoring of bounded-future formulas (pastified): the verdict reported at step i is about instant i-h
    futb = [o for o in ops if o in ('next', 's_next', 'eventually_t', 'always_t', 'until_t', 'unless_t')]
    pf = [f for f in f1 if refsem.has_future(f) and refsem.hor(f) != refsem.INF]
    for a_, b_ in ([(0, 1), (1, 2)] if quick else [(0, 1), (1, 2), (0, 2), (2, 2)]):
        for inn in [('eventually_t', X, 0, 2), ('always_t', X, 1, 2), ('next', X), ('until_t', X, Z, 0, 1), ('once_t', X, 0, 2), ('since_t', X, Z, 0, 1), ('prev', X)]:
            for k in ('until_t', 'unless_t'):
                pf += [(k, inn, Y, a_, b_), (k, Y, inn, a_, b_)]
            for k in ('eventually_t', 'always_t'):
                pf.append((k, inn, a_, b_))
            if (a_, b_) == (0, 1):
                pf += [('next', inn), ('and', inn, ('next', Y)), ('implies', ('next', Y), inn), ('or', ('eventually_t', Y, 0, 1), inn)]
    # three levels: a bounded past operator over a future one, next to a sibling with a larger horizon
    FU = ('eventually_t', X, 0, 1)
    for g3 in [('once_t', FU, 0, 1), ('historically_t', FU, 1, 2), ('since_t', FU, Z, 0, 1), ('prev', FU), ('once_t', ('next', X), 1, 2), ('rise', ('always_t', X, 0, 1))]:
        pf += [('and', g3, ('eventually_t', Y, 0, 3)), ('or', ('always_t', Y, 1, 3), g3), ('until_t', g3, Y, 1, 3), ('implies', ('next', ('next', ('next', Y))), g3)]
    from .c03 import past_reach
    for f in pf:
        if not refsem.has_future(f) or refsem.hor(f) == refsem.INF or past_reach(f) > 4:
            continue
        g = subst(f, ATOMS)
        hr = refsem.hor(f) + past_reach(f)
        for N in ([hr + 3] if quick else [hr + 2, hr + 4]):
            out.append(ob('C07', 'pastified', 'pastified/%s/N=%d' % (text(g), N), f=g, N=N))
    from .. import pool
    for g in pool.ALL:
        for N in ([5] if quick else [3, 6]):
            out.append(ob('C07', 'step', 'step/offline/pool/%s/P=%s/unit=%s/N=%d' % (g[1], g[3] or '-', g[4] or '-', N), f=g, N=N, mode='offline'))
            if is_past(g):
                out.append(ob('C07', 'step', 'step/online/pool/%s/P=%s/unit=%s/N=%d' % (g[1], g[3] or '-', g[4] or '-', N), f=g, N=N, mode='online'))
    if not quick:
        for i in range(300):
            f = refsem.gen_formula(rng, 3, ops, [(0, 1), (1, 2)], ('x', 'y'))
            g = subst(f, ATOMS)
            out.append(ob('C07', 'sign', 'sign3/%d/%s' % (i, text(g)), f=g, N=4, mode='offline'))
            out.append(ob('C07', 'magnitude', 'magnitude3/%d/%s' % (i, text(g)), f=g, N=3, mode='offline', wall=300))
    # dense time
    dn = [3] if quick else [2, 3, 4]
    dense_un = ['not', 'once', 'historically', 'eventually', 'always']
    atoms = [('geq', X, C), ('lt', X, C), ('eq', X, C), ('neq', X, C), ('and', ('geq', X, C), ('leq', X, ('const', 2.0)))]
    for which in ('pos', 'neg', 'zero'):
        out.append(ob('C07', 'fpbridge', 'fp-bridge/%s' % which, which=which, validate=0, wall=600))
    for n in dn:
        for at in atoms:
            fs = [at] + [(k, at) for k in dense_un] + [(k, at, a, b) for k in ('once_t', 'historically_t', 'eventually_t', 'always_t')
                                                         for a, b in [(0, 1), (1, 2)]]
            for f in fs:
                for mode in ('offline', 'online'):
                    if mode == 'online' and refsem.has_future(f):
                        continue
                    out.append(ob('C07', 'dense', 'dense/%s/%s/n=%d' % (mode, text(f), n), f=f, ns=[n], mode=mode, max_paths=20000, wall=600))
    for f in [('and', ('geq', X, C), ('lt', Y, C)), ('or', ('geq', X, Y), ('lt', Y, C)), ('implies', ('geq', X, C), ('neq', Y, X)),
              ('not', ('leq', X, Y))]:
        for mode in ('offline', 'online'):
            out.append(ob('C07', 'dense', 'dense/%s/%s/n=2,2' % (mode, text(f)), f=f, ns=[2, 2], mode=mode, max_paths=20000, wall=600))
    # dense online, fed one sample per update(), traces that do not start at 0 and operands that come up at different instants
    GX0, GY0 = ('geq', X, ('const', 0.0)), ('geq', Y, ('const', 0.0))
    for f in [('and', GX0, ('once_t', GY0, 2, 3)), ('or', ('historically_t', GY0, 1, 2), ('lt', X, C)), ('implies', GX0, ('once_t', GY0, 1, 1)),
              ('and', ('once', GX0), ('once_t', GY0, 2, 3)), ('and', ('once_t', GY0, 2, 3), GX0), ('and', GX0, GY0), ('or', ('not', GX0), ('once', GY0))]:
        for gi, (gx, gy) in enumerate([([1, 2, 3, 4, 5], [1, 2, 3, 4, 5]), ([0, 1, 2, 3, 4], [1, 2, 3, 4, 5]), ([2, 3, 4, 5, 6], [0, 1, 2, 3, 4])]):
            if quick and (gi == 2 or f[0] != 'and'):
                continue
            n = 4 if quick else 5
            out.append(ob('C07', 'dense', 'dense/online-each/%s/grid%d' % (text(f), gi), f=f, ns=[n, n], mode='online', grids=[gx[:n], gy[:n]], each=True, max_paths=40000, wall=900))
    seen = set()
    res_ = [o for o in out if not (o['oid'] in seen or seen.add(o['oid']))]
    from .. import core as _core
    res_ = res_ + _core.make_twins(res_, [('sign/offline/not((x) >= (0.5))/N=3', 'sat'), ('step/offline/once(x)/N=3', 'sat'), ('magnitude/offline/not((x) >= (0.5))/N=3', 'mag')]) + _core.make_forkmode(res_, ['sign/offline/((x) >= (0.5)) and ((y) < (1.0))/N=3'])
    return res_
