"""C20 — explanations of a violation are a sufficient cause."""
from .. import dt, refsem, symx
from ..core import ob
from ..refsem import T, text, variables, rho, sat, X, Y, Z

INFO = {
    'functions': ['rtamt.spec.abstract_specification.AbstractOfflineSpecification.explain', 'rtamt.explanation.ltl.discrete_time.explainer.LTLExplainer.visit* / explain',
                  'rtamt.explanation.stl.discrete_time.explainer.STLExplainer.visit*', 'rtamt.explanation.{ltl,stl}.discrete_time.explanations.explain_* (all)',
                  'offline evaluate() (results per node)'],
    'bounds': {'quick': 'explainer fragment: predicates x~c / x~y, not/and/or/implies, always/eventually/once/historically (bounded and unbounded), prev/next, rise/fall; '
                        'F1 over predicate atoms x bounds, depth-2 sample; N in 1..4; every sign pattern the explainer distinguishes is a path',
               'thorough': 'F2 exhaustive, N up to 5, seeded depth 3'},
    'outside': 'operators the explainer rejects (until, since, timed since/until); object-typed variables',
    'assumptions': ['violated = not satisfied under the Boolean semantics of the README (sat_dt)', 'a variable missing from explainer.explanations has no reported position'],
    'explanation': 'on each path of (evaluate; explain) the reported index sets are concrete; a second symbolic trace is constrained to agree on exactly those positions and '
                   'z3 decides that it cannot satisfy the specification at time 0',
}

C = ('const', 0.5)


def positions(expl, v, N):
    pos = set()
    for iv in expl.get(v, []):
        b, e = iv[0], iv[1]
        for i in range(max(0, int(b)), min(N - 1, int(e)) + 1):
            pos.add(i)
    return pos


def h_explain(f, N, txt=None, period=None, defs=None, before=None, obj=False, reconf=None):
    f = T(f)
    names = []
    if defs:
        # named sub-formulas (several assertions in one text): every reference is the same node object, and the explainer also
        # walks each named sub-formula on its own; the oracle sees the inlined formula
        from .c09 import inline
        dl = [(n, T(d)) for n, d in defs]
        txt_full = '\n'.join('%s = %s;' % (n, text(d)) for n, d in dl) + '\nout = ' + text(f) + ';'
        names = [n for n, _ in dl]
        f = inline(f, dict(dl))
        subs_inl = [inline(d, dict(dl)) for _, d in dl]
    if obj:
        # the signals are the fields of ONE object-valued variable m (m.x, m.y, m.z): same formula, same oracle, other plumbing
        def ren(g):
            g = T(g)
            if g[0] == 'var':
                return ('var', 'm.' + g[1])
            return tuple(ren(c) if isinstance(c, tuple) else c for c in g)
        f = ren(f)
    vs = sorted(variables(f))

    def body(env):
        A = env.A
        for txt0, period0 in (before or []):
            # other specification objects explained earlier in the same process, under another sampling period: no state outside the object
            s0 = dt.make_spec('offline', 'out = ' + txt0, vs, period=period0)
            dt.offline(s0, {v: [-1.0] * N for v in vs}, N)
            s0.explain()
        if defs:
            s = dt.make_spec('offline', txt_full, vs + names, period=period)
        elif obj:
            import rtamt
            from .. import objmsg
            s = rtamt.StlDiscreteTimeOfflineSpecification()
            s.import_module('vf.objmsg', 'Msg')
            s.declare_var('m', 'Msg')
            s.spec = 'out = ' + text(f)
            s.parse()
        elif reconf:
            # ONE object: evaluated and explained under another sampling period first, then re-configured (no new parse())
            s = dt.make_spec('offline', 'out = ' + (txt or text(f)), vs, period=reconf)
            dt.offline(s, {v: [-1.0] * N for v in vs}, N)
            s.explain()
            s.set_sampling_period(*(period or [1, 's', 0.1]))
        else:
            s = dt.make_spec('offline', 'out = ' + (txt or text(f)), vs, period=period)
        w = dt.trace(env, vs, N)
        if obj:
            col = [objmsg.Msg(**{v[2:]: w[v][i] for v in vs}) for i in range(N)]
            out = s.evaluate({'time': list(range(N)), 'm': col})
        else:
            out = dt.offline(s, w, N)
        s.explain()
        expl = s.explainer.explanations
        r0 = out[0][1]
        reported = {v: sorted(positions(expl, v, N)) for v in vs}
        if refsem.TWIN == 'explain':
            reported = {v: r[1:] for v, r in reported.items()}      # vacuity twin: claim sufficiency of a smaller set - must be refuted
        env.observe('reported', [[len(reported[v])] for v in vs])
        triggered = A.lt(r0, 0)
        st = sat(A, f, w, N)
        # violated in the Boolean sense; for iff/xor-free formulas rho<0 implies it (C07), for iff/xor (whose robustness
        # -|p-q| is negative also when both sides hold) only the Boolean violation counts as a violation
        violated = A.And(triggered, A.Not(st[0]))
        any_triggered = triggered
        if defs:
            # every assertion of the text is a specification of its own for explain(): a named sub-formula that is itself negative at
            # time 0 is explained too, so "nothing is reported" is demanded only when no assertion is negative at time 0 (a superset of
            # a sufficient cause is still a sufficient cause, so the second claim is unaffected)
            any_triggered = A.Or(triggered, *[A.lt(rho(A, d, w, N)[0], 0) for d in subs_inl])
        res = [('nothing-reported-when-not-negative', A.Or(any_triggered, A.bool(all(not reported[v] for v in vs))))]
        w2 = dt.trace(env, vs, N, prefix='p_')
        agree = A.And(*[A.eq(w2[v][i], w[v][i]) for v in vs for i in reported[v]])
        st2 = sat(A, f, w2, N)
        res.append(('sufficient-cause', A.Or(A.Not(violated), A.Not(agree), A.Not(st2[0]))))
        return res
    return body


def h_reuse(f, N):
    """the same specification object explains a first (symbolic) trace and is then evaluated and explained again on a
    second symbolic trace: what is reported then must belong to the second trace only"""
    f = T(f)
    vs = sorted(variables(f))

    def body(env):
        A = env.A
        s = dt.make_spec('offline', 'out = ' + text(f), vs)
        w0 = dt.trace(env, vs, N, prefix='first_')
        dt.offline(s, w0, N)
        s.explain()
        w = dt.trace(env, vs, N)
        out = dt.offline(s, w, N)
        s.explain()
        expl = s.explainer.explanations
        r0 = out[0][1]
        reported = {v: sorted(positions(expl, v, N)) for v in vs}
        env.observe('reported', [[len(reported[v])] for v in vs])
        triggered = A.lt(r0, 0)
        st = sat(A, f, w, N)
        violated = A.And(triggered, A.Not(st[0]))
        res = [('nothing-reported-when-not-negative', A.Or(triggered, A.bool(all(not reported[v] for v in vs))))]
        w2 = dt.trace(env, vs, N, prefix='p_')
        agree = A.And(*[A.eq(w2[v][i], w[v][i]) for v in vs for i in reported[v]])
        st2 = sat(A, f, w2, N)
        res.append(('sufficient-cause', A.Or(A.Not(violated), A.Not(agree), A.Not(st2[0]))))
        return res
    return body


UNIT_OPS = {
    # name: (timed?, quantifier over the window, window(t, a, b, N) -> list of indices)
    'always': (False, 'all', lambda t, a, b, N: range(t, N)),
    'eventually': (False, 'any', lambda t, a, b, N: range(t, N)),
    'once': (False, 'any', lambda t, a, b, N: range(0, t + 1)),
    'historically': (False, 'all', lambda t, a, b, N: range(0, t + 1)),
    'timed_always': (True, 'all', lambda t, a, b, N: range(t + a, min(t + b, N - 1) + 1)),
    'timed_eventually': (True, 'any', lambda t, a, b, N: range(t + a, min(t + b, N - 1) + 1)),
    'timed_once': (True, 'any', lambda t, a, b, N: range(max(0, t - b), t - a + 1)),
    'timed_historically': (True, 'all', lambda t, a, b, N: range(max(0, t - b), t - a + 1)),
}


def h_unit_explain(op, flag, ivs, N, a=0, b=0):
    """inductive step for ONE explain_* function: operand signal arbitrary (symbolic), blamed intervals `ivs` arbitrary
    (enumerated); premise: the operator has verdict `flag` at every blamed instant.  Claim: every operand signal that agrees
    in sign with the original on the returned intervals gives the operator the same verdict at every blamed instant."""
    timed, quant, win = UNIT_OPS[op]

    def body(env):
        A = env.A
        import rtamt.explanation.ltl.discrete_time.explanations as L
        import rtamt.explanation.stl.discrete_time.explanations as S
        fn = getattr(S if timed else L, 'explain_%s_%s' % ('sat' if flag else 'unsat', op))
        c = [env.real('c%d' % i) for i in range(N)]
        c2 = [env.real('d%d' % i) for i in range(N)]
        tr = [A.le(0, x) for x in c]
        tr2 = [A.le(0, x) for x in c2]

        def verdict(truths, t):
            idx = list(win(t, a, b, N))
            if quant == 'all':
                return A.And(*[truths[i] for i in idx])
            return A.Or(*[truths[i] for i in idx])
        blamed = sorted({t for lo, hi in ivs for t in range(lo, hi + 1)})
        for t in blamed:                                   # premise: the operator has the verdict that is being explained
            v = verdict(tr, t)
            env.assume(v if flag else A.Not(v))
        J = fn(c, [list(i) for i in ivs], a, b) if timed else fn(c, [list(i) for i in ivs])
        rep = sorted({j for lo, hi in J for j in range(max(0, int(lo)), min(N - 1, int(hi)) + 1)})
        env.observe('reported', [len(rep)])
        agree = A.And(*[A.Or(A.And(tr[j], tr2[j]), A.And(A.Not(tr[j]), A.Not(tr2[j]))) for j in rep])
        res = []
        for t in blamed:
            v2 = verdict(tr2, t)
            res.append(('unit-sufficient@%d' % t, A.Or(A.Not(agree), v2 if flag else A.Not(v2))))
        return res
    return body


def h_unit_explain2(op, flag, ivs, N):
    """the same inductive step for the Boolean connectives (two operands), prev/next and rise/fall"""
    def body(env):
        A = env.A
        import rtamt.explanation.ltl.discrete_time.explanations as L
        c = [env.real('c%d' % i) for i in range(N)]
        e = [env.real('e%d' % i) for i in range(N)]
        c2 = [env.real('d%d' % i) for i in range(N)]
        e2 = [env.real('f%d' % i) for i in range(N)]
        T1, T2, U1, U2 = ([A.le(0, x) for x in s_] for s_ in (c, e, c2, e2))

        def verdict(p, q, t):
            if op == 'and': return A.And(p[t], q[t])
            if op == 'or': return A.Or(p[t], q[t])
            if op == 'implies': return A.Or(A.Not(p[t]), q[t])
            if op == 'prev': return p[t - 1] if t > 0 else A.bool(flag)          # weak/strong: whatever the verdict says at 0
            if op == 'next': return p[t + 1] if t + 1 < N else A.bool(flag)
            if op == 'rise': return A.And(p[t], A.Not(p[t - 1])) if t > 0 else p[t]
            if op == 'fall': return A.And(A.Not(p[t]), p[t - 1]) if t > 0 else A.Not(p[t])
            raise KeyError(op)
        blamed = sorted({t for lo, hi in ivs for t in range(lo, hi + 1)})
        for t in blamed:
            v = verdict(T1, T2, t)
            env.assume(v if flag else A.Not(v))
        iv = [list(i) for i in ivs]
        if op in ('and', 'or', 'implies'):
            J1, J2 = getattr(L, 'explain_%s_%s' % ('sat' if flag else 'unsat', op))(c, e, iv)
        elif op in ('prev', 'next'):
            J1, J2 = getattr(L, 'explain_%s_%s' % ('sat' if flag else 'unsat', op))(c, iv), []
        else:
            J1, J2 = getattr(L, 'explain_%s' % op)(c, iv), []
        pos = lambda J: sorted({j for lo, hi in J for j in range(max(0, int(lo)), min(N - 1, int(hi)) + 1)})
        same = lambda p, q, j: A.Or(A.And(p[j], q[j]), A.And(A.Not(p[j]), A.Not(q[j])))
        agree = A.And(*([same(T1, U1, j) for j in pos(J1)] + [same(T2, U2, j) for j in pos(J2)]))
        env.observe('reported', [len(pos(J1)), len(pos(J2))])
        res = []
        for t in blamed:
            v2 = verdict(U1, U2, t)
            res.append(('unit-sufficient@%d' % t, A.Or(A.Not(agree), v2 if flag else A.Not(v2))))
        return res
    return body


def interval_sets(N):
    """all sets of one or two disjoint, non-adjacent intervals inside [0, N-1]"""
    one = [(lo, hi) for lo in range(N) for hi in range(lo, N)]
    out = [[i] for i in one]
    for i in one:
        for j in one:
            if j[0] > i[1] + 1:
                out.append([i, j])
    return out


EXP_UN = ['not', 'always', 'eventually', 'once', 'historically', 'prev', 's_prev', 'next', 's_next', 'rise', 'fall']
EXP_UNT = ['always_t', 'eventually_t', 'once_t', 'historically_t']
EXP_BIN = ['and', 'or', 'implies', 'iff', 'xor']


def atoms_subst(f):
    m = {'x': ('geq', X, C), 'y': ('leq', Y, C), 'z': ('geq', Z, X)}
    f = T(f)
    if f[0] == 'var':
        return m[f[1]]
    if f[0] == 'const':
        return ('geq', Y, ('const', f[1]))
    return tuple(atoms_subst(c) if isinstance(c, tuple) else c for c in f)


def obligations(tier, rng):
    quick = tier == 'quick'
    out = []
    bounds = [(0, 1), (1, 2), (0, 2), (2, 3)] if quick else refsem.BOUNDS_Q
    ops = EXP_UN + EXP_UNT + EXP_BIN
    f1 = refsem.f1(bounds, ops=set(ops))
    atoms = [('geq', X, C), ('leq', X, C), ('gt', X, C), ('lt', X, Y), ('eq', X, C), ('neq', X, C), ('geq', ('add', X, Y), C), ('leq', ('abs', X), C)]
    for a in atoms:
        for N in (1, 3):
            out.append(ob('C20', 'explain', 'atom/%s/N=%d' % (text(a), N), f=a, N=N))
    for f in f1:
        g = atoms_subst(f)
        for N in ([1, 2, 4] if quick else [1, 2, 3, 4, 5]):
            out.append(ob('C20', 'explain', 'F1/%s/N=%d' % (text(g), N), f=g, N=N, max_paths=20000, wall=600))
    f2 = refsem.depth2(ops, ops, [(0, 1), (1, 2)])
    for f in f2:
        g = atoms_subst(f)
        for N in ([3] if quick else [2, 3, 4]):
            out.append(ob('C20', 'explain', 'F2/%s/N=%d' % (text(g), N), f=g, N=N, max_paths=40000, wall=900))
    for f in [('geq', X, C), ('always_t', ('implies', ('geq', X, C), ('eventually_t', ('leq', Y, C), 0, 1)), 0, 1), ('or', ('geq', X, C), ('once', ('leq', Y, C))),
              ('eventually', ('geq', X, C)), ('not', ('historically', ('geq', X, C)))]:
        out.append(ob('C20', 'reuse', 'reuse/%s/N=3' % text(f), f=f, N=3, max_paths=40000, wall=600))
    # inductive step per explain_* function: arbitrary operand signal, every set of <= 2 blamed intervals
    Nu = 4 if quick else 5
    for op, (timed, _, _) in UNIT_OPS.items():
        for flag in (True, False):
            for ivs in interval_sets(Nu):
                for (a, b) in ([(0, 1), (1, 2), (0, 2)] if timed else [(0, 0)]):
                    quant, win = UNIT_OPS[op][1], UNIT_OPS[op][2]
                    empty = any(len(list(win(t, a, b, Nu))) == 0 for lo, hi in ivs for t in range(lo, hi + 1))
                    if empty and ((quant == 'all' and not flag) or (quant == 'any' and flag)):
                        continue                  # an empty window cannot have that verdict: nothing to explain
                    out.append(ob('C20', 'unit_explain', 'unit/%s_%s%s/I=%s' % ('sat' if flag else 'unsat', op, '[%d,%d]' % (a, b) if timed else '', ivs),
                                  op=op, flag=flag, ivs=[list(i) for i in ivs], N=Nu, a=a, b=b, validate=0))
    for op in ('and', 'or', 'implies', 'prev', 'next', 'rise', 'fall'):
        for flag in (True, False):
            for ivs in interval_sets(Nu):
                if op in ('rise', 'fall') and flag and any(hi > lo for lo, hi in ivs):
                    continue              # an edge cannot hold at two consecutive samples: nothing to explain
                out.append(ob('C20', 'unit_explain2', 'unit2/%s_%s/I=%s' % ('sat' if flag else 'unsat', op, ivs), op=op, flag=flag,
                              ivs=[list(i) for i in ivs], N=Nu, validate=0))
    # bounds that are not plain sample counts (explicit units, sampling period other than the default unit)
    GU = ('geq', X, ('const', 0.0))
    for f, txt, period in [(('always_t', GU, 0, 4), 'always[0:2s]((x) >= (0.0))', [500, 'ms', 0.1]), (('eventually_t', GU, 2, 4), 'eventually[1:2]((x) >= (0.0))', [500, 'ms', 0.1]),
                           (('always_t', GU, 1, 3), 'always[1000ms:3s]((x) >= (0.0))', None), (('once_t', GU, 0, 2), 'eventually[2,2](once[0ms:2000ms]((x) >= (0.0)))', None)]:
        if f[0] == 'once_t':
            f = ('eventually_t', f, 2, 2)
        out.append(ob('C20', 'explain', 'units/%s/p=%s' % (txt, period), f=f, N=6, txt=txt, period=period, max_paths=40000, wall=600))
    # object-valued signals: the variables of the formula are fields of one object (m.x, m.y), each field occurring more than once
    GX, GY = ('geq', X, ('const', 3.0)), ('leq', Y, ('const', 4.0))
    for f in [('or', ('leq', X, ('const', 4.0)), ('always', GX)), ('and', GX, ('eventually', GX)), ('or', ('always_t', GX, 0, 2), ('once', ('leq', X, ('const', 0.0)))),
              ('implies', ('once', GX), ('always', ('and', GX, GY))), ('and', ('or', GX, GY), ('next', ('or', GY, GX))), ('always', ('implies', GY, ('eventually_t', GX, 0, 1)))]:
        out.append(ob('C20', 'explain', 'object-fields/%s/N=5' % text(f), f=f, N=5, obj=True, max_paths=40000, wall=600))
    # the same bound text explained under one sampling period and then under another (both orders), in one process
    for txt, fa, fb in [('always[0:2]((x) >= (0.0))', ('always_t', GU, 0, 2), ('always_t', GU, 0, 4)), ('eventually[1:2]((x) >= (0.0))', ('eventually_t', GU, 1, 2), ('eventually_t', GU, 2, 4)),
                        ('eventually[0,1](once[1:2]((x) >= (0.0)))', ('eventually_t', ('once_t', GU, 1, 2), 0, 1), ('eventually_t', ('once_t', GU, 2, 4), 0, 2))]:
        out.append(ob('C20', 'explain', 'units-history/%s/1s then 500ms' % txt, f=fb, N=7, txt=txt, period=[500, 'ms', 0.1], before=[[txt, None]], max_paths=40000, wall=600))
        out.append(ob('C20', 'explain', 'units-history/%s/500ms then 1s' % txt, f=fa, N=7, txt=txt, period=None, before=[[txt, [500, 'ms', 0.1]]], max_paths=40000, wall=600))
        out.append(ob('C20', 'explain', 'units-reconfigured/%s/1s then 500ms' % txt, f=fb, N=7, txt=txt, period=[500, 'ms', 0.1], reconf=[1, 's', 0.1], max_paths=40000, wall=600))
        out.append(ob('C20', 'explain', 'units-reconfigured/%s/500ms then 1s' % txt, f=fa, N=7, txt=txt, period=[1, 's', 0.1], reconf=[500, 'ms', 0.1], max_paths=40000, wall=600))
    # depth 3: a temporal operator over a Boolean combination with another temporal operator - the inner operator is asked
    # to explain SEVERAL disjoint intervals at once
    GA, GB = ('geq', X, ('const', 0.0)), ('geq', Y, ('const', 0.0))
    outers = [lambda g: ('eventually_t', g, 0, 3), lambda g: ('always_t', g, 0, 3), lambda g: ('eventually', g), lambda g: ('always', g),
              lambda g: ('once_t', g, 0, 3), lambda g: ('historically_t', g, 0, 3), lambda g: ('next', ('eventually_t', g, 0, 2))]
    inners = [lambda a: ('eventually_t', a, 0, 1), lambda a: ('always_t', a, 0, 1), lambda a: ('once_t', a, 0, 1), lambda a: ('historically_t', a, 0, 1),
              lambda a: ('once', a), lambda a: ('historically', a), lambda a: ('eventually', a), lambda a: ('always', a)]
    for oi, o in enumerate(outers):
        for ii, i in enumerate(inners):
            for c in ('and', 'or', 'implies'):
                if quick and (oi + ii) % 2 and c != 'and':
                    continue
                f = o((c, i(GA), GB))
                if refsem.has(f, {'once_t', 'historically_t', 'once', 'historically'}) and f[0] in ('once_t', 'historically_t'):
                    f = ('eventually_t', f, 0, 2)        # a past operator at the top only sees sample 0: put it under a future one
                out.append(ob('C20', 'explain', 'depth3/%s/N=%d' % (text(f), 5 if quick else 6), f=f, N=5 if quick else 6, max_paths=100000, wall=900))
    # the same variable under two temporal operators with different (nested / overlapping) windows
    G1, G2 = ('gt', X, ('const', 0.0)), ('gt', X, ('const', 1.0))
    tops = [('eventually_t', 0, 5), ('always_t', 2, 3), ('eventually_t', 1, 2), ('always_t', 0, 4), ('once_t', 0, 1), ('historically_t', 0, 2),
            ('eventually', None, None), ('always', None, None)]
    for i, (k1, a1, b1) in enumerate(tops):
        for (k2, a2, b2) in tops[i + 1:]:
            l = (k1, G1, a1, b1) if a1 is not None else (k1, G1)
            r = (k2, G2, a2, b2) if a2 is not None else (k2, G2)
            for c in ('or', 'and') + (() if quick else ('implies',)):
                f = (c, l, r)
                out.append(ob('C20', 'explain', 'dup/%s/N=%d' % (text(f), 6), f=f, N=6, max_paths=40000, wall=600))
    # named sub-formulas: the node of a name is shared by all its references and is explained once per reference (with other
    # blamed intervals each time) and once more on its own
    PS, QS = ('var', 'psub'), ('var', 'qsub')
    C3 = ('const', 3.0)
    mods = [([('psub', ('geq', Y, C3))], ('implies', ('geq', X, C3), ('or', PS, ('eventually_t', PS, 2, 4))), 6),
            ([('psub', ('geq', X, C3))], ('eventually_t', PS, 0, 3), 5),
            ([('psub', ('geq', X, C3))], ('or', PS, ('next', PS)), 3),
            ([('psub', ('geq', X, C3))], ('or', ('eventually_t', PS, 0, 1), ('eventually_t', PS, 2, 3)), 5),
            ([('psub', ('geq', X, C3))], ('and', ('always_t', PS, 0, 1), ('always_t', PS, 2, 3)), 5),
            ([('psub', ('once_t', ('geq', X, C3), 0, 1))], ('or', PS, ('eventually_t', PS, 2, 3)), 5),
            ([('psub', ('geq', X, C3)), ('qsub', ('or', PS, ('geq', Y, C3)))], ('or', QS, ('eventually_t', PS, 1, 2)), 4),
            ([('psub', ('geq', X, C3)), ('qsub', ('eventually_t', PS, 0, 1))], ('or', QS, ('next', ('next', QS))), 5),
            ([('psub', ('leq', X, C3))], ('iff', PS, ('next', PS)), 3),
            ([('psub', ('geq', X, C3))], ('or', ('rise', PS), ('eventually_t', PS, 1, 2)), 4)]
    for defs, main, N in mods:
        out.append(ob('C20', 'explain', 'named/%s/%s/N=%d' % (';'.join('%s=%s' % (n, text(d)) for n, d in defs), text(main), N), f=main, N=N, defs=defs,
                      max_paths=40000, wall=600))
    if not quick:
        for i in range(200):
            f = refsem.gen_formula(rng, 3, ops, [(0, 1), (1, 2)], ('x', 'y'))
            out.append(ob('C20', 'explain', 'F3/%d/%s' % (i, text(atoms_subst(f))), f=atoms_subst(f), N=3, max_paths=40000, wall=900))
    seen = set()
    res_ = [o for o in out if not (o['oid'] in seen or seen.add(o['oid']))]
    from .. import core as _core
    res_ = res_ + _core.make_twins(res_, [('F1/not((x) >= (0.5))/N=2', 'explain'), ('F1/historically((x) >= (0.5))/N=2', 'explain')]) + _core.make_forkmode(res_, [])
    return res_
