"""C01 — discrete-time offline robustness equals the README semantics."""
from .. import dt, refsem, symx
from ..core import ob
from ..refsem import T, text, variables, rho, X, Y, Z

INFO = {
    'functions': ['rtamt.semantics.abstract_discrete_time_offline_interpreter.AbstractDiscreteTimeOfflineInterpreter.evaluate',
                  'rtamt.semantics.stl.discrete_time.offline.ast_visitor.StlDiscreteTimeOfflineAstVisitor.visit* (all)',
                  'rtamt.semantics.discrete_time_interpreter.DiscreteTimeInterpreter.time_unit_transformer / update_sampling_violation_counter',
                  'rtamt.syntax.ast.visitor.{ltl,stl}.ast_visitor dispatch', 'rtamt.syntax.ast.parser.{ltl,stl}.parser_visitor (concrete texts)'],
    'bounds': {'quick': 'F1: every operator x bounds (0,0)(0,1)(0,2)(1,1)(1,2)(1,3)(2,2) x N in 1,2,3,4,6; F2 depth-2 sample 6%; '
                        'both offline classes; time-stamps symbolic (free origin; free gaps for N<=3); the shared pool of 43 notation cases (vf/pool.py) against rho_dt',
               'thorough': 'F1: bounds all 0<=a<=b<=4,(0,6),(3,6) x N in 1..8,10; F2 exhaustive (reduced bounds) N in 3,5; '
                           'F3 seeded depth 3-4'},
    'outside': 'trace length, bounds and nesting depth beyond the above; IEEE rounding; sqrt/exp/ln/pow/log are uninterpreted (wiring only)',
    'assumptions': ['operands of arithmetic operators are finite reals; operands of Boolean/temporal operators are extended reals',
                    'paths on which inf-inf or a division by zero would arise are outside the claim (counted in aborted_paths)'],
    'explanation': 'every sample value (and time-stamp) is a z3 variable; per obligation z3 decides out[t]==rho(phi,w,t) for all values',
}


def h_offline(f, N, kind='offline', ext=True, times='origin', twice=0, period=None, late=False, full_text=None, extra_vars=()):
    f = T(f)
    vs = sorted(set(variables(f)) | set(extra_vars))
    uf = refsem.has(f, {'sqrt', 'exp', 'ln', 'pow', 'log'})

    def body(env):
        A = env.A
        s = dt.make_spec(kind, full_text or ('out = ' + text(f)), vs, period=(tuple(period) + (0.1,)) if period else None, f=f, config_after_parse=late)
        w = dt.trace(env, vs, N, ext=ext and not uf)
        if uf:
            for v in vs:
                for x in w[v]:
                    env.assume(A.And(A.le(2, x), A.le(x, 8)))
        if times == 'free':
            ts = [env.real('t%d' % i) for i in range(N)]
        elif times == 'origin':
            t0 = env.real('t0')
            ts = [t0 + i for i in range(N)]
        elif period:
            ts = [i * period[0] / {'s': 1.0, 'ms': 1e3, 'us': 1e6}[period[1]] for i in range(N)]     # in the default unit (s)
        else:
            ts = list(range(N))
        if twice:
            # the same specification object was evaluated before, on OTHER data of another length
            w0 = dt.trace(env, vs, twice, ext=False, prefix='first_')
            dt.offline(s, w0, twice)
        out = dt.offline(s, w, N, ts)
        asserts = [('shape', A.bool(isinstance(out, list) and len(out) == N and all(len(p) == 2 for p in out)))]
        if len(out) != N:
            return asserts
        env.observe('out', [p[1] for p in out])
        for i in range(N):
            asserts.append(('time@%d' % i, A.eq(out[i][0], ts[i])))
        ref = rho(A, f, w, N)
        asserts += dt.eq_list(A, 'rho', [p[1] for p in out], ref)
        return asserts
    body.uf = uf
    return body


def _ext_ok(f):
    """extended-real operands only where no arithmetic sits above a variable"""
    return not refsem.has(f, set(refsem.ARITH) | set(refsem.PRED) | {'iff', 'xor'})


def obligations(tier, rng):
    quick = tier == 'quick'
    bounds = refsem.BOUNDS_Q if quick else refsem.BOUNDS_T
    Ns = [1, 2, 3, 4, 6] if quick else [1, 2, 3, 4, 5, 6, 7, 8, 10]
    out = []
    for f in refsem.f1(bounds):
        for N in Ns:
            kind = 'offline' if (N % 2) else 'combined'
            out.append(ob('C01', 'offline', 'F1/%s/%s/N=%d' % (kind, text(f), N), f=f, N=N, kind=kind, ext=_ext_ok(f),
                          times='free' if N <= 3 else 'origin'))
    # F2: depth 2
    ops_un = [k for k in refsem.UN if k not in ('sqrt', 'exp', 'ln')]
    ops_bin = [k for k in refsem.BIN if k not in ('pow', 'log', 'div')]
    ops = ops_un + list(refsem.UNT) + ops_bin + list(refsem.BINT)
    f2 = refsem.depth2(ops, ops, [(0, 1), (1, 2)] if quick else [(0, 1), (1, 2), (2, 3)])
    if quick:
        f2 = rng.sample(f2, max(1, len(f2) * 6 // 100))
    for f in f2:
        for N in ([4] if quick else [3, 5]):
            # extended-real operands on the short trace only (nested (k,r) terms: single queries approach the solver timeout on N=5)
            out.append(ob('C01', 'offline', 'F2/%s/N=%d' % (text(f), N), f=f, N=N, kind='combined', ext=_ext_ok(f) and N <= 4,
                          times='fixed'))
    # F3: seeded deeper formulas
    n3 = 40 if quick else 600
    allops = ops + list(refsem.PRED)
    for i in range(n3):
        f = refsem.gen_formula(rng, rng.choice([3, 4]), allops, [(0, 1), (1, 2), (0, 2)], ('x', 'y'))
        N = rng.choice([3, 4, 5, 6])
        out.append(ob('C01', 'offline', 'F3/%d/%s/N=%d' % (i, text(f), N), f=f, N=N, kind='combined', ext=False,
                      times='fixed'))
    # bounds written with explicit / mixed units (the text goes through the parser; the oracle is the sample-level formula)
    raws = [('raw', 'once[1s:2000ms](x)', ('once_t', X, 1, 2)), ('raw', 'always[0s:2000ms](x)', ('always_t', X, 0, 2)),
            ('raw', 'eventually[1000ms:3s](x)', ('eventually_t', X, 1, 3)), ('raw', '(x) until[1000000us:3s] (y)', ('until_t', X, Y, 1, 3)),
            ('raw', '(x) since[0:2000ms] (y)', ('since_t', X, Y, 0, 2)), ('raw', 'historically[1s,2s](x)', ('historically_t', X, 1, 2)),
            ('raw', '(x) unless[1s,2000ms] (y)', ('unless_t', X, Y, 1, 2))]
    for f in raws:
        for N in (2, 5):
            out.append(ob('C01', 'offline', 'units/%s/N=%d' % (f[1], N), f=f, N=N, kind='offline', ext=True, times='fixed'))
    # a sampling period other than 1 s, on the offline class and on the class that has both monitors
    praws = [('raw', 'once[500ms:1s](x)', ('once_t', X, 1, 2)), ('raw', 'always[0:1](x)', ('always_t', X, 0, 2)), ('raw', '(x) until[0.5:1.5] (y)', ('until_t', X, Y, 1, 3)),
             ('raw', 'eventually[0:1000ms](historically[500ms:1s](x))', ('eventually_t', ('historically_t', X, 1, 2), 0, 2)),
             ('raw', '(x) since[1s:1500ms] (y)', ('since_t', X, Y, 2, 3))]
    for f in praws:
        for kind in ('offline', 'combined'):
            out.append(ob('C01', 'offline', 'period500ms/%s/%s/N=6' % (kind, f[1]), f=f, N=6, kind=kind, ext=True, times='period', period=[500, 'ms']))
    out.append(ob('C01', 'offline', 'period250us/combined/once[250us:500us](x)/N=4', f=('raw', 'once[250us:500us](x)', ('once_t', X, 1, 2)), N=4, kind='combined', ext=True,
                  times='period', period=[250, 'us']))
    # the shared pool of notation cases (vf/pool.py): units, one-sided units, fractional bounds, other periods and default units
    from .. import pool
    for i, g in enumerate(pool.ALL):
        for N in (2, 6):
            out.append(ob('C01', 'offline', 'pool/%s/P=%s/unit=%s/N=%d' % (g[1], g[3] or '-', g[4] or '-', N), f=g, N=N, kind='offline' if (i + N) % 3 else 'combined',
                          ext=True, times='fixed', late=(N == 6 and i % 2 == 1)))       # every other case: unit and period set after parse()
    # texts with several assertions: evaluate() returns the robustness of the LAST one, whatever the others are and however they refer to
    # each other (f is the last assertion with the names written out)
    GX2, GY0 = ('geq', X, ('const', 2.0)), ('geq', Y, ('const', 0.0))
    multi = [('a = (x) >= (2.0); b = always((a) and ((y) >= (0.0))); out = a', GX2),
             ('a = (x) >= (2.0); b = always((a) and ((y) >= (0.0))); out = b', ('always', ('and', GX2, GY0))),
             ('a = once[0,1](x); b = (a) or (y); c = historically(b); out = b', ('or', ('once_t', X, 0, 1), Y)),
             ('a = prev(x); out = a; c = (a) and (y)', ('and', ('prev', X), Y)),
             ('a = (x) >= (2.0); out = (a) and (a)', ('and', GX2, GX2)),
             ('a = (y) >= (0.0); b = eventually[0,1](a); res = (a) until (b); out = a', GY0),
             ('lim = 5.0; out = ((x) <= (lim)) and ((x) >= (-(lim)))', ('and', ('leq', X, ('const', 5.0)), ('geq', X, ('neg', ('const', 5.0))))),
             ('lim = 2.0; low = -(lim); out = ((y) >= (low)) and (((x) - (-(lim))) >= (lim))', ('and', ('geq', Y, ('neg', ('const', 2.0))), ('geq', ('sub', X, ('neg', ('const', 2.0))), ('const', 2.0))))]
    for txt, fm in multi:
        for N in (1, 4):
            out.append(ob('C01', 'offline', 'multi/%s/N=%d' % (txt, N), f=fm, N=N, kind='offline' if N == 1 else 'combined', ext=False, times='fixed', full_text=txt, extra_vars=['x', 'y']))
    # depth 2 on traces that are shorter than (or exactly as long as) the bound of the inner future operator
    inner_fut = [('eventually_t', X, 0, 3), ('always_t', X, 1, 3), ('until_t', X, Y, 0, 3), ('unless_t', X, Y, 1, 3), ('eventually_t', X, 2, 2)]
    outer_all = ops_un + list(refsem.UNT) + ops_bin + list(refsem.BINT)
    for inn in inner_fut:
        for k in outer_all:
            for N in (1, 2, 3):
                if k in refsem.UN: fs = [(k, inn)]
                elif k in refsem.UNT: fs = [(k, inn, 0, 2)]
                elif k in refsem.BIN: fs = [(k, inn, Z), (k, Z, inn)]
                else: fs = [(k, inn, Z, 0, 2), (k, Z, inn, 0, 2)]
                for f in fs:
                    if quick and (N == 2 or (f[1] is not inn and k not in ('until', 'since', 'implies', 'sub', 'until_t'))):
                        continue
                    out.append(ob('C01', 'offline', 'short2/%s/N=%d' % (text(f), N), f=f, N=N, kind='offline', ext=_ext_ok(f), times='fixed'))
    # re-use of one specification object: an earlier evaluate() on other data (longer and shorter) must leave no trace
    for f in refsem.f1([(0, 1), (1, 2), (2, 3)]):
        if refsem.has(f, {'sqrt', 'exp', 'ln', 'pow', 'log', 'div'}):
            continue
        for N, first in ((3, 5), (4, 2)):
            out.append(ob('C01', 'offline', 'reuse/%s/N=%d after %d' % (text(f), N, first), f=f, N=N, kind='offline' if N % 2 else 'combined',
                          ext=False, times='fixed', twice=first))
    # regression shapes named in the design
    for f in [('unless_t', X, Y, 1, 2), ('unless_t', X, Y, 0, 3), ('always_t', X, 0, 5), ('eventually_t', X, 2, 5)]:
        for N in (1, 2, 3):
            out.append(ob('C01', 'offline', 'short/%s/N=%d' % (text(f), N), f=f, N=N, kind='offline', ext=True, times='fixed'))
    seen = set()
    res = []
    for o in out:
        if o['oid'] not in seen:
            seen.add(o['oid'])
            res.append(o)
    res_ = res
    from .. import core as _core
    res_ = res_ + _core.make_twins(res_, [('F1/offline/once[0,1](x)/N=3', 'window'), ('F1/offline/(x) and (y)/N=3', 'minmax'), ('F1/offline/prev(x)/N=3', 'pad'), ('F1/combined/(x) since (y)/N=4', 'since'), ('F1/combined/eventually[1,2](x)/N=4', 'window')]) + _core.make_forkmode(res_, ['F1/offline/historically[0,2](x)/N=3', 'F1/combined/(x) until[1,2] (y)/N=4', 'F1/offline/(x) or (y)/N=3', 'F1/combined/(x) since (y)/N=4'])
    return res_
