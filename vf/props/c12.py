"""C12 — get_value(name) is the robustness of the formula bound to that name."""
from .. import ct, dt, refct, refsem, symx
from ..core import ob
from ..refsem import T, text, variables, rho, hor, X, Y, Z
from .c09 import _specs, _mk_dt, _mk_ct, inline, DEFS_PAST, DEFS_FUT, MAINS, P, Q

INFO = {
    'functions': ['rtamt.syntax.ast.parser.abstract_ast_parser.get_value / results / phi_name_to_node_dict', 'rtamt.syntax.ast.parser.ltl.parser_visitor.visitAssertion / visitExprId',
                  'offline visitors\' visit() (results[node])', 'AbstractOnlineUpdateVisitor (results), interpreters\' update()', 'StlPastifier.visit (renaming of phi_name_to_node_dict)'],
    'bounds': {'quick': 'sub-spec definitions x referencing formulas of C09 (incl. nested sub-specs, duplicated sub-formulas), names = every input variable, every assertion/sub-spec name; '
                        'dt offline/online/pastified N=5, dense offline/online n=3; a later name whose formula text occurs inside an earlier definition next to a bounded-future operator; named values read after an evaluate() that follows a FAILED evaluate() on the same object',
               'thorough': 'N=7, more pairs, dense n=4'},
    'outside': 'names of anonymous sub-formulas (printed text) are only checked for the few listed in the obligations',
    'assumptions': ['stand-alone reference = a fresh specification whose only assertion is the inlined formula of that name, pastified too if the main one was'],
    'explanation': 'after symbolic evaluate()/update(), z3 decides get_value(name) == result of the stand-alone specification of that name, for all values',
}


def h_dt(defs, main, N, mode, style='sub', pre=0, fail_first=False):
    defs_list = [(n, T(d)) for n, d in defs]
    main = T(main)
    dd = dict(defs_list)
    full = inline(main, dd)
    names = [(n, inline(d, dd)) for n, d in defs_list] + [('out', full)]
    vs = sorted(set().union(*[variables(f) for _, f in names]))          # also the variables of definitions that the main formula does not use

    def body(env):
        A = env.A
        kind = 'offline' if mode == 'offline' else 'combined'
        past = mode == 'pastified'
        sm, _ = _specs(style, defs_list, main, vs, kind, _mk_dt, past)
        w = dt.trace(env, vs, N)
        res = []
        if mode == 'offline':
            if fail_first:
                # an evaluate() on the same object that raised part-way (division by exactly zero in a later assertion, after earlier
                # assertions were computed) precedes the call whose named values are read
                for x in w.get('y', []):
                    env.assume(A.Or(A.lt(x, 0), A.lt(0, x)))
                bad = {'time': list(range(N))}
                for v in vs:
                    bad[v] = [0.0 if v == 'y' else 7.0 + i for i in range(N)]
                try:
                    sm.evaluate(bad)
                except ZeroDivisionError:
                    pass
            dt.offline(sm, w, N)
            for v in vs:
                res += dt.eq_list(A, 'var-%s' % v, list(sm.get_value(v)), w[v])
            for n, f in names:
                ref = dt.make_spec('offline~', 'out = ' + text(f), sorted(variables(f)))
                want = [p[1] for p in dt.offline(ref, {v: w[v] for v in variables(f)}, N)]
                got = sm.get_value(n)
                env.observe(n, list(got))
                res += dt.eq_list(A, 'name-%s' % n, list(got), want)
            return res
        if pre:
            # the object has a history and was reset(): the named values afterwards are those of fresh stand-alone specifications
            w0 = dt.trace(env, vs, pre, prefix='pre_')
            for i in range(pre):
                sm.update(i, [(v, w0[v][i]) for v in vs])
            sm.reset()
        refs = [(n, f, dt.make_spec('combined', 'out = ' + text(f), sorted(variables(f)), pastify=past)) for n, f in names]
        for i in range(N):
            sm.update(i, [(v, w[v][i]) for v in vs])
            for v in vs:
                res.append(('var-%s@%d' % (v, i), A.eq(sm.get_value(v), w[v][i])))
            for n, f, ref in refs:
                want = ref.update(i, [(v, w[v][i]) for v in sorted(variables(f))])
                got = sm.get_value(n)
                env.observe('%s@%d' % (n, i), got)
                res.append(('name-%s@%d' % (n, i), A.eq(got, want)))
        return res
    return body


def h_ct(defs, main, ns, mode, overlap=False):
    defs_list = [(n, T(d)) for n, d in defs]
    main = T(main)
    dd = dict(defs_list)
    full = inline(main, dd)
    vs = sorted(variables(full))
    names = [(n, inline(d, dd)) for n, d in defs_list] + [('out', full)]

    def body(env):
        A = env.A
        sm, _ = _specs('sub', defs_list, main, vs, mode, _mk_ct, False)
        sigs = {v: ct.signal(env, v, n, 'zero') for v, n in zip(vs, ns)}
        mkargs = lambda vv: [[v, [list(p) for p in sigs[v]]] for v in vv]
        res = []
        def feed(spec, vv):
            """one evaluate()/update(), or two update() calls whose second batch repeats the sample the first ended with; fresh copies each time"""
            if overlap and mode == 'online':
                spec.update(*[[v, [list(p) for p in sigs[v][:-1]]] for v in vv])
                return spec.update(*[[v, [list(p) for p in sigs[v][-2:]]] for v in vv])
            return spec.evaluate(*mkargs(vv)) if mode == 'offline' else spec.update(*mkargs(vv))
        feed(sm, vs)
        for v in vs:
            sg = [list(p) for p in (sigs[v][-2:] if overlap and mode == 'online' else sigs[v])]   # independent copy of what was supplied last
            got = sm.get_value(v)
            res.append(('var-%s-len' % v, A.bool(len(got) == len(sg))))
            if len(got) == len(sg):
                for i in range(len(got)):
                    res.append(('var-%s@%d' % (v, i), A.And(A.eq(got[i][0], sg[i][0]), A.eq(got[i][1], sg[i][1]))))
        tau = env.real('tau')
        for n, f in names:
            fv = sorted(variables(f))
            ref = ct.make_spec(mode, 'out = ' + text(f), fv)
            want = feed(ref, fv)
            got = sm.get_value(n)
            got, want = [list(p) for p in got], [list(p) for p in want]
            env.observe(n, got)
            res += ct.wellformed(A, got, 'name-%s' % n)
            if not want or not got:
                res.append(('name-%s-empty' % n, A.bool(not want and not got)))
                continue
            if mode == 'online':
                res.append(('name-%s-cover' % n, A.And(A.eq(got[0][0], want[0][0]), A.eq(got[-1][0], want[-1][0]))))
            S, E = refct.domain(A, [sigs[v] for v in fv])
            lo = A.max([got[0][0], want[0][0], S])
            hi = E if mode == 'offline' else A.min([got[-1][0], want[-1][0], E])
            inside = A.And(A.le(lo, tau), A.le(tau, hi))
            res.append(('name-%s' % n, A.Or(A.Not(inside), A.eq(refct.val(A, got, tau), refct.val(A, want, tau)))))
        return res
    return body


def h_poolct(idx):
    """a case of the shared dense-time online pool (vf/poolct.py)"""
    def body(env):
        from .. import poolct
        outs, res = ct.run_pool_case(env, poolct.CASES[idx], check=('get_value',))
        env.observe('updates', len(outs))
        return res
    return body


def obligations(tier, rng):
    quick = tier == 'quick'
    N = 5 if quick else 7
    out = []
    from .. import poolct as _pc
    for _i, _c in enumerate(_pc.CASES):
        out.append(ob('C12', 'poolct', 'pool-ct-get_value/%d/%s/%s' % (_i, text(_c[0]), ';'.join(','.join(map(str, q)) or '-' for q in _c[2])), idx=_i, max_paths=60000, wall=900))
    for d in DEFS_PAST + DEFS_FUT:
        fut = refsem.has_future(d)
        for m in MAINS:
            if quick and (MAINS.index(m) + (DEFS_PAST + DEFS_FUT).index(d)) % 2:
                continue
            for mode in ['offline'] + (['pastified'] if fut else ['online']):
                out.append(ob('C12', 'dt', 'dt/%s/p=%s/out=%s' % (mode, text(d), text(m)), defs=[['p', d]], main=m, N=N, mode=mode))
    for d in [('prev', X), ('once_t', X, 0, 1), ('since', X, Y), ('eventually_t', X, 0, 1)]:
        for q in [('once', P), ('or', P, ('prev', P)), ('historically_t', P, 0, 1)]:
            for m in [('and', Q, P), ('or', Q, Z)]:
                fut = refsem.has_future(d)
                for mode in ['offline'] + (['pastified'] if fut else ['online']):
                    out.append(ob('C12', 'dt', 'dt/%s/nested/p=%s/q=%s/out=%s' % (mode, text(d), text(q), text(m)),
                                  defs=[['p', d], ['q', q]], main=m, N=N, mode=mode))
    # the object's previous evaluate() raised part-way (division by zero in a later assertion): the named values read after the next call
    # are those of that call's data
    for defs, m in [([['p', ('sub', X, ('const', 1.0))]], ('always', ('geq', ('div', P, Y), ('const', 1.0)))),
                    ([['p', ('once_t', X, 0, 1)], ['q', ('div', P, Y)]], ('geq', Q, P)),
                    ([['p', ('geq', X, ('const', 1.0))], ['q', ('historically', P)]], ('and', Q, ('geq', ('div', X, Y), ('const', 0.0))))]:
        out.append(ob('C12', 'dt', 'dt/offline/after-failing-call/%s/out=%s' % (';'.join('%s=%s' % (n, text(d)) for n, d in defs), text(m)),
                      defs=defs, main=m, N=3, mode='offline', fail_first=True))
    # names of input variables whose last occurrence sits under a repeated sub-formula
    GX = ('geq', X, ('const', 3.0))
    for m in [('and', GX, ('once_t', GX, 0, 1)), ('or', ('prev', X), ('not', ('prev', X))), ('and', ('and', P, Z), ('once', ('and', P, Z)))]:
        for mode in ('offline', 'online'):
            out.append(ob('C12', 'dt', 'dt/%s/dup/out=%s' % (mode, text(m)), defs=[['p', ('since', X, Y)]] if refsem.has(m, set()) or 'p' in variables(m) else [],
                          main=m, N=N, mode=mode, sweep=30))
    # the formula of a named sub-specification written out again inside a later assertion (same text, stateful operator on top); plateau
    # data in the sweep: the operator's value stays the same over consecutive updates while its operand changes
    GY0 = ('geq', Y, ('const', 0.0))
    for d in [('historically', GX), ('once', GX), ('since', GX, GY0), ('once_t', GX, 0, 2)]:
        for m in [('and', GY0, d), ('or', ('not', d), GY0)]:
            for mode in ('online', 'offline'):
                out.append(ob('C12', 'dt', 'dt/%s/dup-text/p=%s/out=%s' % (mode, text(d), text(m)), defs=[['p', d]], main=m, N=N, mode=mode, sweep=40))
    # traces shorter than a future bound: the operand's stored signal must stay one value per sample
    for d in [('geq', X, ('const', 3.0)), ('once_t', X, 0, 1)]:
        for m in [('eventually_t', P, 0, 5), ('always_t', P, 2, 5), ('until_t', P, Z, 0, 4), ('and', ('eventually_t', P, 1, 4), P)]:
            for Ns in (2, 4):
                out.append(ob('C12', 'dt', 'dt/offline/short/p=%s/out=%s/N=%d' % (text(d), text(m), Ns), defs=[['p', d]], main=m, N=Ns, mode='offline'))
    for m in [('eventually_t', X, 0, 5), ('always_t', X, 1, 5), ('or', ('eventually_t', X, 2, 5), ('always_t', Y, 0, 3))]:
        for Ns in (1, 3):
            out.append(ob('C12', 'dt', 'dt/offline/short-var/out=%s/N=%d' % (text(m), Ns), defs=[], main=m, N=Ns, mode='offline'))
    # different horizons of sub-spec and main
    for d, m in [(('eventually_t', X, 0, 1), ('and', P, ('eventually_t', Y, 0, 3))), (('next', X), ('or', P, ('always_t', Y, 1, 2))),
                 (('once_t', X, 0, 1), ('and', P, ('eventually_t', Y, 0, 2)))]:
        out.append(ob('C12', 'dt', 'dt/pastified/horizons/p=%s/out=%s' % (text(d), text(m)), defs=[['p', d]], main=m, N=N + 2, mode='pastified'))
    # after a history and a reset(): every name, also of assertions the last one does not refer to
    for d in [('prev', X), ('once_t', X, 0, 2), ('since', X, Y), ('historically', X)]:
        for m in [('geq', Z, ('const', 0.0)), ('and', P, Z), ('or', ('once', Z), ('not', P))]:
            for style in ('sub', 'multi'):
                out.append(ob('C12', 'dt', 'dt/online-after-reset/%s/p=%s/out=%s' % (style, text(d), text(m)), defs=[['p', d]], main=m, N=4, mode='online', style=style, pre=3))
    for d, m in [(('once_t', X, 0, 2), ('and', P, ('eventually_t', Y, 0, 1))), (('prev', X), ('eventually_t', Z, 0, 2))]:
        out.append(ob('C12', 'dt', 'dt/pastified-after-reset/p=%s/out=%s' % (text(d), text(m)), defs=[['p', d]], main=m, N=6, mode='pastified', pre=3))
    # the formula of a LATER name occurs, as plain text, inside an EARLIER definition next to (or below) a bounded-future operator: the
    # name is bound to its own formula, not to the delayed copy that pastify() made of that text elsewhere
    GY = ('geq', Y, ('const', 0.0))
    for sub in [GX, ('once_t', X, 0, 1), ('prev', X), ('since', X, Y)]:
        for d1 in [('and', sub, ('eventually_t', GY, 0, 2)), ('or', ('always_t', GY, 1, 2), sub), ('eventually_t', ('and', sub, GY), 0, 1), ('implies', ('next', GY), sub)]:
            for m in [Q, ('or', P, Q), ('and', Q, ('eventually_t', Z, 0, 1))]:
                if quick and m is not Q and sub is not GX:
                    continue
                for mode in ('pastified', 'offline'):
                    out.append(ob('C12', 'dt', 'dt/%s/text-twice/p=%s/q=%s/out=%s' % (mode, text(d1), text(sub), text(m)), defs=[['p', d1], ['q', sub]], main=m, N=N + 1, mode=mode))
    if not quick:
        # seeded random definitions (depth 2 over x,y) referenced by seeded random formulas (depth 2 over p,z)
        rops = ['not', 'and', 'or', 'implies', 'once', 'historically', 'prev', 'rise', 'since', 'once_t', 'historically_t', 'since_t', 'geq', 'abs', 'sub',
                'eventually_t', 'always_t', 'until_t', 'next']
        k = 0
        while k < 300:
            d = refsem.gen_formula(rng, 2, rops, [(0, 1), (1, 2)], ('x', 'y'))
            m = refsem.gen_formula(rng, 2, rops, [(0, 1), (1, 2)], ('p', 'z'))
            if 'p' not in variables(m) or d[0] in ('var', 'const'):
                continue
            k += 1
            fut = refsem.has_future(d) or refsem.has_future(m)
            if fut and hor(inline(m, {'p': d})) > 6:
                continue
            for mode in ['offline'] + (['pastified'] if fut else ['online']):
                out.append(ob('C12', 'dt', 'dt/%s/random%d/p=%s/out=%s' % (mode, k, text(d), text(m)), defs=[['p', d]], main=m, N=6, mode=mode))
    ddefs = [('once_t', X, 0, 1), ('once', X), ('not', X), ('since', X, Y), ('geq', X, ('const', 1.5))]
    dmains = [('not', P), ('or', P, ('once', P)), ('and', P, P)]
    for d in ddefs:
        for m in dmains:
            two = len(variables(inline(m, {'p': d}))) > 1
            for mode in ('offline', 'online'):
                out.append(ob('C12', 'ct', 'ct/%s/p=%s/out=%s' % (mode, text(d), text(m)), defs=[['p', d]], main=m,
                              ns=[2, 2] if two else [3 if quick else 4], mode=mode, max_paths=30000, wall=900))
    ov = [(('abs', X), ('geq', P, ('const', 1.0))), (('geq', X, Y), ('not', P)), (('sub', X, Y), ('once', P))]
    # every binary dense-time online operation directly over the caller's two batches, and over named one-to-one sub-specs
    ov += [((k, X, Y), ('not', P)) for k in ('and', 'or', 'implies', 'iff', 'xor', 'add', 'mul', 'leq', 'lt', 'gt', 'eq', 'neq', 'since')]
    ov += [(('abs', X), (k, P, Y)) for k in ('and', 'or', 'sub', 'since', 'geq')]
    ov += [(('once_t', X, 0, 1), ('not', P)), (('historically', X), ('and', P, X))] + ([] if quick else [(('since_t', X, Y, 0, 1), ('not', P))])
    for d, m in ov:
        two = len(variables(inline(m, {'p': d}))) > 1
        out.append(ob('C12', 'ct', 'ct/online-overlap/p=%s/out=%s' % (text(d), text(m)), defs=[['p', d]], main=m, ns=[3, 3] if two else [3], mode='online',
                      overlap=True, max_paths=30000, wall=900))
    seen = set()
    return [o for o in out if not (o['oid'] in seen or seen.add(o['oid']))]
