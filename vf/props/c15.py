"""C15 — syntactic variants and documented sugar denote the same monitor."""
import os
import re

from .. import dt, refsem, symx
from ..core import ob, REPO
from ..refsem import T, text, variables, rho, X, Y, Z

INFO = {
    'functions': ['rtamt/antlr/grammar/tl/LtlLexer.g4, LtlParser.g4, StlParser.g4 (read on every run to enumerate aliases and the precedence order)',
                  'rtamt.antlr.parser.{stl,ltl} generated lexer/parser (concrete texts)', 'rtamt.syntax.ast.parser.{ltl,stl}.parser_visitor (all visitExpr*)',
                  'offline/online discrete-time evaluation of both variants'],
    'bounds': {'quick': 'every alias alternative of every operator token of the current lexer grammar; "," vs ":"; 0-2 redundant parenthesis levels; trailing ";" and assertion head '
                        'present/absent; LtlAst vs StlAst on untimed formulas; every ordered pair of binary operators a op1 b op2 c and every prefix operator before every binary one, '
                        'against the grouping prescribed by the order of alternatives in StlParser.g4; unless[a,b] against its expansion; N=4',
               'thorough': 'N=6, bounds variety, triples of operators'},
    'outside': 'strings outside the enumerated variant space (that is C14, not claimed)',
    'assumptions': ['precedence reading: an alternative listed earlier in the left-recursive expression rule binds tighter; equal alternative = left associative (ANTLR4 semantics)'],
    'explanation': 'both texts go through the real parser; z3 decides for all sample values that variant, canonical text and the README semantics of the intended AST agree',
}

GRAMMAR = os.path.join(REPO, 'rtamt', 'antlr', 'grammar', 'tl')

OPTOK = {'NotOperator': 'not', 'OrOperator': 'or', 'AndOperator': 'and', 'IffOperator': 'iff', 'ImpliesOperator': 'implies', 'XorOperator': 'xor',
         'RiseOperator': 'rise', 'FallOperator': 'fall', 'AlwaysOperator': 'always', 'EventuallyOperator': 'eventually', 'UntilOperator': 'until',
         'UnlessOperator': 'unless', 'HistoricallyOperator': 'historically', 'OnceOperator': 'once', 'SinceOperator': 'since', 'NextOperator': 'next',
         'PreviousOperator': 'prev', 'StrongNextOperator': 's_next', 'StrongPreviousOperator': 's_prev'}


def lexer_aliases():
    """token name -> list of literal spellings, read from the lexer grammar of the current tree"""
    src = open(os.path.join(GRAMMAR, 'LtlLexer.g4')).read()
    src = re.sub(r'//[^\n]*', '', src)
    out = {}
    for m in re.finditer(r'^\s*([A-Z][A-Za-z_]*)\s*:\s*([^;]*?);', src, re.M | re.S):
        name, rhs = m.group(1), m.group(2)
        lits = re.findall(r"'([^']+)'", rhs)
        if name in OPTOK and lits and re.fullmatch(r"\s*'[^']+'(\s*\|\s*'[^']+')*\s*", rhs):
            out[name] = lits
    return out


def precedence():
    """labels of the alternatives of `expression` in StlParser.g4, in order"""
    src = open(os.path.join(GRAMMAR, 'StlParser.g4')).read()
    body = src[src.index('expression\n'):]
    return re.findall(r'#(\w+)', body)


LABEL = {'mul': 'ExprMultDiv', 'div': 'ExprMultDiv', 'add': 'ExprAddSub', 'sub': 'ExprAddSub', 'leq': 'ExprPredicate', 'geq': 'ExprPredicate', 'lt': 'ExprPredicate',
         'gt': 'ExprPredicate', 'eq': 'ExprPredicate', 'neq': 'ExprPredicate', 'until': 'ExprUntil', 'unless': 'ExprUnless', 'since': 'ExprSince', 'and': 'ExprAnd',
         'or': 'ExprOr', 'implies': 'ExprImplies', 'iff': 'ExprIff', 'xor': 'ExprXor', 'not': 'ExprNot', 'always': 'ExprAlways', 'eventually': 'ExprEv',
         'historically': 'ExprHist', 'once': 'ExpreOnce', 'prev': 'ExprPrevious', 'next': 'ExprNext', 's_prev': 'ExprStrongPrevious', 's_next': 'ExprStrongNext',
         'neg': 'ExprNegate'}
SYM = {'mul': '*', 'div': '/', 'add': '+', 'sub': '-', 'leq': '<=', 'geq': '>=', 'lt': '<', 'gt': '>', 'eq': '==', 'neq': '!==', 'until': 'until', 'unless': 'unless',
       'since': 'since', 'and': 'and', 'or': 'or', 'implies': 'implies', 'iff': 'iff', 'xor': 'xor', 'not': 'not', 'always': 'always', 'eventually': 'eventually',
       'historically': 'historically', 'once': 'once', 'prev': 'prev', 'next': 'next', 's_prev': 's_prev', 's_next': 's_next', 'neg': '-'}


def _spec(front, txt, vs, period=None, late_unit=None):
    if front == 'ltl':
        from rtamt.spec.abstract_specification import AbstractOfflineSpecification
        from rtamt.syntax.ast.parser.ltl.specification_parser import LtlAst
        from rtamt.semantics.stl.discrete_time.offline.interpreter import StlDiscreteTimeOfflineInterpreter
        s = AbstractOfflineSpecification(LtlAst(), StlDiscreteTimeOfflineInterpreter())
        for v in vs:
            s.declare_var(v, 'float')
        s.spec = txt
        s.parse()
        return s
    return dt.make_spec('combined', txt, vs, period=period, unit=late_unit, config_after_parse=bool(late_unit))


def h_variant(f, canon, variant, N, online=False, front='stl', period=None, late_unit=None):
    """f: intended AST (oracle); canon / variant: full specification texts"""
    f = T(f)
    vs = sorted(variables(f))

    def body(env):
        A = env.A
        w = dt.trace(env, vs, N)
        sc = _spec('stl', canon, vs, period, late_unit)
        sv = _spec(front, variant, vs, period, late_unit)          # a variant that does not parse does not denote the same monitor: the exception is the finding
        gc = [p[1] for p in dt.offline(sc, w, N)]
        gv = [p[1] for p in dt.offline(sv, w, N)]
        env.observe('variant', gv)
        ref = rho(A, f, w, N)
        res = dt.eq_list(A, 'variant', gv, gc) + dt.eq_list(A, 'rho', gv, ref)
        if online:
            oc = dt.online(_spec('stl', canon, vs, period), w, N)
            ov = dt.online(_spec('stl', variant, vs, period), w, N)
            res += dt.eq_list(A, 'variant-online', ov, oc) + dt.eq_list(A, 'rho-online', ov, ref)
        return res
    return body


def obligations(tier, rng):
    quick = tier == 'quick'
    N = 4 if quick else 6
    out = []
    al = lexer_aliases()
    order = precedence()
    rank = {lab: i for i, lab in enumerate(order)}

    def add(name, f, canon, variant, front='stl'):
        online = (not refsem.has_future(f)) and front == 'stl'
        out.append(ob('C15', 'variant', '%s/%s  ~  %s' % (name, variant.replace('\n', ' '), canon), f=f, canon=canon, variant=variant, N=N,
                      online=online, front=front))

    # 1. aliases
    for tok, lits in sorted(al.items()):
        k = OPTOK[tok]
        for sp in lits:
            if k in refsem.UN:
                shapes = [((k, X), '%s (x)')]
                if k + '_t' in refsem.UNT:
                    shapes.append(((k + '_t', X, 1, 2), '%s [1,2] (x)'))
                if k in ('rise', 'fall'):
                    shapes = [((k, X), '%s(x)')]
            else:
                shapes = [((k, X, Y), '(x) %s (y)')]
                if k + '_t' in refsem.BINT:
                    shapes.append(((k + '_t', X, Y, 1, 2), '(x) %s [1,2] (y)'))
            for f, pat in shapes:
                add('alias', f, 'out = ' + text(f), 'out = ' + pat % sp)
            # alias nested under / over another operator (token boundaries)
            if k in refsem.UN and k not in ('rise', 'fall'):
                f = ('and', (k, ('not', X)), Y)
                add('alias-nested', f, 'out = ' + text(f), 'out = (%s ! x) & y' % sp)
    # 2. separators
    for k in ('once_t', 'historically_t', 'eventually_t', 'always_t'):
        f = (k, X, 1, 2)
        add('separator', f, 'out = ' + text(f), 'out = %s[1:2](x)' % k[:-2])
    for k in ('since_t', 'until_t', 'unless_t'):
        f = (k, X, Y, 0, 2)
        add('separator', f, 'out = ' + text(f), 'out = (x) %s[0:2] (y)' % k[:-2])
    # 3./4. parentheses, semicolon, assertion head
    base = [('and', ('once_t', X, 0, 1), ('geq', Y, ('const', 1.0))), ('since', X, ('or', Y, ('not', X))), ('implies', ('prev', X), ('eventually', Y))]
    for f in base:
        t = text(f)
        add('parens', f, 'out = ' + t, 'out = (' + t + ')')
        add('parens', f, 'out = ' + t, 'out = ((' + t + '))')
        add('semicolon', f, 'out = ' + t, 'out = ' + t + ';')
        add('head', f, 'out = ' + t, t)
        add('head', f, 'out = ' + t, t + ';')
        add('head', f, 'out = ' + t, 'res = ' + t)
    # 5. LTL front end on untimed formulas
    for f in [('and', X, Y), ('not', X), ('since', X, Y), ('until', X, Y), ('once', X), ('historically', X), ('eventually', X), ('always', X),
              ('prev', X), ('next', X), ('s_prev', X), ('s_next', X), ('implies', X, Y), ('iff', X, Y), ('xor', X, Y), ('rise', X), ('fall', X),
              ('geq', ('add', X, Y), ('abs', X)), ('or', ('always', X), ('until', X, Y)), ('unless', X, Y), ('neg', X), ('mul', X, Y)]:
        add('ltl-front', f, 'out = ' + text(f), 'out = ' + text(f), front='ltl')
    # 6. precedence: binary-binary, prefix-binary
    binops = ['mul', 'div', 'add', 'sub', 'leq', 'gt', 'eq', 'until', 'unless', 'since', 'and', 'or', 'implies', 'iff', 'xor']
    prefix = ['not', 'always', 'eventually', 'historically', 'once', 'prev', 'next', 's_prev', 's_next', 'neg']
    pairs = [(a, b) for a in binops for b in binops]
    if quick:
        pairs = [p for p in pairs if p[0] != p[1] or p[0] in ('sub', 'div', 'implies', 'since', 'until')]
    for a, b in pairs:
        if {a, b} & {'div'} and {a, b} & {'leq', 'gt', 'eq', 'until', 'unless', 'since', 'and', 'or', 'implies', 'iff', 'xor'}:
            pass
        ra, rb = rank[LABEL[a]], rank[LABEL[b]]
        if ra <= rb:
            f = (b, (a, X, Y), Z)
        else:
            f = (a, X, (b, Y, Z))
        add('precedence', f, 'out = ' + text(f), 'out = x %s y %s z' % (SYM[a], SYM[b]))
        if not ({a, b} & {'mul', 'div', 'add', 'sub', 'leq', 'gt', 'eq'}) or not quick:
            add('precedence-ltl', f, 'out = ' + text(f), 'out = x %s y %s z' % (SYM[a], SYM[b]), front='ltl')      # the LTL front end has its own generated parser
    for p in prefix:
        for b in binops:
            rp, rb = rank[LABEL[p]], rank[LABEL[b]]
            if rp <= rb:
                f = (b, (p, X), Y)
            else:
                f = (p, (b, X, Y))
            add('precedence-prefix', f, 'out = ' + text(f), 'out = %s x %s y' % (SYM[p], SYM[b]))
            add('precedence-prefix-ltl', f, 'out = ' + text(f), 'out = %s x %s y' % (SYM[p], SYM[b]), front='ltl')
    # a prefix operator in the middle of a chain of binary operators (both front ends)
    for p in prefix:
        for a, b in [('until', 'until'), ('since', 'and'), ('and', 'until'), ('or', 'since'), ('implies', 'unless')] + ([] if quick else [('add', 'leq'), ('sub', 'sub'), ('iff', 'xor')]):
            ra, rp, rb = rank[LABEL[a]], rank[LABEL[p]], rank[LABEL[b]]
            inner = (b, (p, Y), Z) if rp <= rb else (p, (b, Y, Z))         # what the prefix operator takes as its operand
            if rp > rb or ra > rb:
                f = (a, X, inner)
            else:
                f = (b, (a, X, (p, Y)), Z)
            for front in ('stl', 'ltl'):
                add('precedence-mid-%s' % front, f, 'out = ' + text(f), 'out = x %s %s y %s z' % (SYM[a], SYM[p], SYM[b]), front=front)
    # 7. unless sugar
    for a, b in [(0, 1), (1, 2), (0, 3), (2, 2)]:
        f = ('or', ('always_t', X, 0, b), ('until_t', X, Y, a, b))
        add('unless-sugar', f, 'out = ' + text(f), 'out = (x) unless[%d,%d] (y)' % (a, b))
    f = ('or', ('always', X), ('until', X, Y))
    add('unless-sugar', f, 'out = ' + text(f), 'out = (x) unless (y)')
    # ... with the default unit (and a matching sampling period) assigned AFTER parse(): unit-less bounds are read in the unit in force when
    # the monitor runs, in both halves of the sugar
    for a, b in [(1, 3), (0, 2)]:
        f = ('or', ('always_t', X, 0, b), ('until_t', X, Y, a, b))
        for lu, per in (('ms', [1, 'ms']), ('us', [1, 'us'])):
            out.append(ob('C15', 'variant', 'unless-sugar-late-unit/%s/out = (x) unless[%d,%d] (y)  ~  %s' % (lu, a, b, 'out = ' + text(f)), f=f, canon='out = ' + text(f),
                          variant='out = (x) unless[%d,%d] (y)' % (a, b), N=N, online=False, front='stl', period=per, late_unit=lu))
    # ... on traces NOT LONGER than the upper bound (the two halves of the sugar share the left operand)
    for a, b in [(1, 5), (0, 3), (2, 4)]:
        f = ('or', ('always_t', X, 0, b), ('until_t', X, Y, a, b))
        for Ns in (1, 2, 3):
            out.append(ob('C15', 'variant', 'unless-sugar-short/N=%d/out = (x) unless[%d,%d] (y)  ~  %s' % (Ns, a, b, 'out = ' + text(f)), f=f, canon='out = ' + text(f),
                          variant='out = (x) unless[%d,%d] (y)' % (a, b), N=Ns, online=False, front='stl'))
            g = ('geq', X, ('const', 3.0))
            f2 = ('or', ('always_t', g, 0, b), ('until_t', g, ('geq', Y, ('const', 2.0)), a, b))
            out.append(ob('C15', 'variant', 'unless-sugar-short/N=%d/out = ((x) >= (3.0)) unless[%d,%d] ((y) >= (2.0))' % (Ns, a, b), f=f2, canon='out = ' + text(f2),
                          variant='out = ((x) >= (3.0)) unless[%d,%d] ((y) >= (2.0))' % (a, b), N=Ns, online=False, front='stl'))
    # ... and with explicit, mixed and one-sided units (a, b in seconds = samples)
    for a, b in [(1, 3), (0, 2)]:
        f = ('or', ('always_t', X, 0, b), ('until_t', X, Y, a, b))
        for itv in ['[%ds,%ds]' % (a, b), '[%ds,%dms]' % (a, b * 1000), '[%dms,%ds]' % (a * 1000, b), '[%d,%ds]' % (a, b),
                    '[%d,%dms]' % (a * 1000, b * 1000), '[%dms,%d]' % (a * 1000, b * 1000), '[%ds,%d]' % (a, b), '[%dus,%d]' % (a * 10 ** 6, b * 10 ** 6)]:
            add('unless-sugar-units', f, 'out = ' + text(f), 'out = (x) unless%s (y)' % itv)
    # ... and with bounds that are fractions of the unit they are written in (sampling period 500 ms; f has the bounds in samples)
    for (ta, tb), (a, b) in [(('0.5', '1.5'), (1, 3)), (('0.5s', '1.5s'), (1, 3)), (('1', '2.5'), (2, 5)), (('0', '0.5'), (0, 1))]:
        f = ('or', ('always_t', X, 0, b), ('until_t', X, Y, a, b))
        canon = 'out = (always[0,%s](x)) or ((x) until[%s,%s] (y))' % (tb, ta, tb)
        out.append(ob('C15', 'variant', 'unless-sugar-fraction/out = (x) unless[%s,%s] (y)  ~  %s' % (ta, tb, canon), f=f, canon=canon,
                      variant='out = (x) unless[%s,%s] (y)' % (ta, tb), N=N + 2, online=False, front='stl', period=[500, 'ms']))
    # one-sided units on the other bounded operators: the bound without a unit takes the unit of the other bound
    for k, fmt in [('once_t', 'once%s(x)'), ('always_t', 'always%s(x)'), ('since_t', '(x) since%s (y)'), ('until_t', '(x) until%s (y)'), ('historically_t', 'H%s x'),
                   ('eventually_t', 'F%s x')]:
        for a, b in [(0, 2), (1, 2)]:
            f = (k, X, Y, a, b) if k in ('since_t', 'until_t') else (k, X, a, b)
            for itv in ['[%dms,%d]' % (a * 1000, b * 1000), '[%d,%dms]' % (a * 1000, b * 1000), '[%ds:%d]' % (a, b)]:
                add('one-sided-units', f, 'out = ' + text(f), 'out = ' + fmt % itv)
    seen = set()
    res_ = [o for o in out if not (o['oid'] in seen or seen.add(o['oid']))]
    from .. import core as _core
    res_ = res_ + _core.make_twins(res_, [('alias/out = O [1,2] (x)', 'window'), ('precedence/out = x and y or z', 'minmax'), ('alias/out = Y (x)', 'pad')]) + _core.make_forkmode(res_, [])
    return res_
