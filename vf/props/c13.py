"""C13 — sampling_violation_counter counts exactly the out-of-tolerance gaps."""
from fractions import Fraction

from .. import dt, refsem, symx
from ..core import ob
from ..refsem import T, text, variables, rho, X

INFO = {
    'functions': ['rtamt.semantics.discrete_time_interpreter.DiscreteTimeInterpreter.update_sampling_violation_counter / set_sampling_period',
                  'rtamt.semantics.abstract_discrete_time_online_interpreter.update (per-update gap check)', 'rtamt.semantics.abstract_discrete_time_offline_interpreter.evaluate (loop over the time column)',
                  'rtamt.spec.abstract_specification.sampling_violation_counter / set_sampling_period / unit'],
    'bounds': {'quick': 'n+1 symbolic time-stamps, n<=4 gaps (not assumed monotone), symbolic tolerance in [0,1] (and the default 0.1); period x period unit x default unit in '
                        '{(1,s,s),(500,ms,s),(500,ms,ms),(2,s,ms),(1,s,default),(250,us,ms)}; online, offline class, combined class via evaluate() and via update(); one offline object evaluating two data sets',
               'thorough': 'n<=6 gaps, more period/unit combinations'},
    'outside': 'more than 6 gaps; float rounding at the tolerance boundary (time-stamps are reals)',
    'assumptions': ['P = period * U[period unit] / U[default unit]: the time-stamps are expressed in the default unit of the specification (README examples 5 and 6)'],
    'explanation': 'the code forks on every gap test; on each path the final counter is a concrete integer and z3 decides that the path condition implies it equals the number '
                   'of gaps outside [P(1-tol), P(1+tol)]',
}

U = {'s': 10 ** 9, 'ms': 10 ** 6, 'us': 10 ** 3, 'ns': 1}


def h_counter(n, period, punit, unit, cls, tol='sym', f=('since', ('var', 'x'), ('prev', ('var', 'x'))), pre=None, late=False):
    f = T(f)

    def body(env):
        A = env.A
        vs = sorted(variables(f))
        kind, via = cls.split(':')
        s = dt.make_spec(kind, 'out = ' + text(f) if via != 'bare' else 'out = x', vs, unit=unit, config_after_parse=late)
        if tol == 'sym':
            tl = env.real('tol')
            env.assume(A.And(A.le(0, tl), A.le(tl, 1)))
            s.set_sampling_period(period, punit, tl)
        elif tol == 'default':
            tl = Fraction(1, 10)
            if (period, punit) != (1, 's'):
                s.set_sampling_period(period, punit)
        else:
            tl = Fraction(tol)
            s.set_sampling_period(period, punit, float(tl))
        ts = [env.real('t%d' % i) for i in range(n + 1)]
        w = dt.trace(env, vs, n + 1)
        if via == 'evaluate':
            if pre is not None:
                # an earlier data set evaluated on the same object: the counter afterwards describes the time column supplied LAST
                ts0 = [env.real('u%d' % i) for i in range(pre + 1)]
                dt.offline(s, dt.trace(env, vs, pre + 1, prefix='p'), pre + 1, ts0)
            got = [p[1] for p in dt.offline(s, w, n + 1, ts)]
        else:
            if pre is not None:
                # an earlier run on the same object, then reset(): the counter restarts and describes the run fed afterwards
                ts0 = [env.real('u%d' % i) for i in range(pre + 1)]
                dt.online(s, dt.trace(env, vs, pre + 1, prefix='p'), pre + 1, ts0)
                s.reset()
            got = dt.online(s, w, n + 1, ts)
        cnt = s.sampling_violation_counter
        env.observe('counter', cnt)
        P = Fraction(period * U[punit], U[unit or 's'])
        if tol == 'sym':
            lo, hi = P * (1 - tl), P * (1 + tl)
        else:
            # concrete tolerance: the bounds as IEEE doubles (rounding of P*tol and P-P*tol is outside the claim)
            lo, hi = float(P) - float(P) * float(tl), float(P) + float(P) * float(tl)
        exp = 0
        for i in range(n):
            gap = ts[i + 1] - ts[i]
            outside = A.Or(A.lt(gap, lo), A.lt(hi, gap))
            exp = exp + A.ite(outside, 1, 0)
        res = [('counter-type', A.bool(isinstance(cnt, int))), ('counter', A.eq(cnt, exp))]
        res += dt.eq_list(A, 'values-unaffected', got, rho(A, f, w, n + 1))
        return res
    return body


def obligations(tier, rng):
    quick = tier == 'quick'
    out = []
    cfgs = [(1, 's', None), (1, 's', 's'), (500, 'ms', 's'), (500, 'ms', 'ms'), (2, 's', 'ms'), (250, 'us', 'ms')]
    if not quick:
        cfgs += [(1000, 'ms', 's'), (3, 'ms', 'us'), (1, 'us', 'ns'), (10, 's', None)]
    classes = ['online:update', 'combined:update', 'offline:evaluate', 'combined:evaluate']
    for period, punit, unit in cfgs:
        for cls in classes:
            for n in ([0, 1, 2, 3] if quick else [0, 1, 2, 3, 4, 5]):
                out.append(ob('C13', 'counter', '%s/P=%d%s/unit=%s/n=%d/tol=sym' % (cls, period, punit, unit, n), n=n, period=period, punit=punit,
                              unit=unit, cls=cls, max_paths=20000, wall=900))
            out.append(ob('C13', 'counter', '%s/P=%d%s/unit=%s/n=3/tol=default' % (cls, period, punit, unit), n=3, period=period, punit=punit,
                          unit=unit, cls=cls, tol='default', max_paths=20000, wall=900))
    for cls in classes:
        out.append(ob('C13', 'counter', '%s/P=1s/unit=None/n=%d/tol=sym/deep' % (cls, 4 if quick else 6), n=4 if quick else 6, period=1, punit='s', unit=None,
                      cls=cls, max_paths=50000, wall=1500))
        for tol in ('0', '1', '1/4'):
            out.append(ob('C13', 'counter', '%s/P=1s/unit=None/n=2/tol=%s' % (cls, tol), n=2, period=1, punit='s', unit=None, cls=cls, tol=tol))
    # one offline object, two data sets: the counter read after the second evaluate() counts the gaps of the second time column
    for cls in ('offline:evaluate', 'combined:evaluate'):
        for pre, n in ([(1, 1), (2, 2)] if quick else [(1, 1), (2, 2), (1, 3), (3, 1), (0, 2)]):
            out.append(ob('C13', 'counter', '%s/P=1s/unit=None/second-data-set/pre=%d/n=%d/tol=sym' % (cls, pre, n), n=n, period=1, punit='s', unit=None,
                          cls=cls, pre=pre, max_paths=20000, wall=900))
    # the default unit and the sampling period configured AFTER parse()
    for cls in classes:
        for period, punit, unit in [(500, 'ms', 's'), (2, 's', 'ms'), (250, 'us', 'ms'), (500, 'ms', 'ms')]:
            out.append(ob('C13', 'counter', '%s/P=%d%s/unit=%s/configured-after-parse/n=2/tol=sym' % (cls, period, punit, unit), n=2, period=period, punit=punit, unit=unit,
                          cls=cls, late=True, max_paths=20000, wall=900))
    # online: a run, reset(), another run - the counter describes the second run only (also reset() before the very first update: pre=-1)
    for cls in ('online:update', 'combined:update'):
        for pre, n in ([(1, 1), (-1, 2), (2, 0)] if quick else [(1, 1), (-1, 2), (2, 0), (0, 2), (2, 2), (1, 3)]):
            for period, punit, unit in [(1, 's', None), (500, 'ms', 's')]:
                out.append(ob('C13', 'counter', '%s/P=%d%s/unit=%s/after-reset/pre=%d/n=%d/tol=sym' % (cls, period, punit, unit, pre, n), n=n, period=period, punit=punit,
                              unit=unit, cls=cls, pre=pre, max_paths=20000, wall=900))
    res_ = out
    from .. import core as _core
    res_ = res_ + _core.make_twins(res_, [('online:update/P=1s/unit=None/n=2/tol=sym', 'since')]) + _core.make_forkmode(res_, [])
    return res_
