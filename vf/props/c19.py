"""C19 — dense-time and discrete-time interpretations agree on sampled step signals."""
from fractions import Fraction

from .. import ct, dt, refct, refsem, symx
from ..core import ob
from ..refsem import T, text, variables, hor, rho, X, Y, Z

INFO = {
    'functions': ['rtamt.semantics.stl.dense_time.offline.ast_visitor (all operators of the fragment)', 'rtamt.semantics.stl.discrete_time.offline.ast_visitor',
                  'both time_unit_transformer functions'],
    'bounds': {'quick': 'fragment: arithmetic, comparisons, Boolean operators, once/historically (bounded or not), bounded eventually/always; F1 and depth-2 nestings (sample), '
                        'bounds multiples of the period P in {1, 1/2}; N=4..5 samples on the grid k*P (concrete times), symbolic values; also the dense online monitor on past formulas; one variable used twice, once under abs/neg/not/once/historically',
               'thorough': 'F2 exhaustive over the fragment, N up to 7, P=1/4'},
    'outside': 'since/until/prev/next/rise/fall and unbounded future (excluded by the property)',
    'assumptions': ['the dense input is the step signal [[k*P, v_k]]; dense robustness is read at the instants k*P with k+horizon < N'],
    'explanation': 'sample values are symbolic (grid times concrete); z3 decides val(dense_out, k*P) == discrete_out[k] == rho for all values',
}


def text_scaled(f, P):
    f = T(f)
    k = f[0]
    def bd(b):
        v = Fraction(b) * P
        return str(v.numerator) if v.denominator == 1 else repr(float(v))
    if k in refsem.UNT:
        return refsem.UNT[k].format(text_scaled(f[1], P), a=bd(f[2]), b=bd(f[3]))
    if k in refsem.BINT:
        return refsem.BINT[k].format(text_scaled(f[1], P), text_scaled(f[2], P), a=bd(f[3]), b=bd(f[4]))
    if k in refsem.UN:
        return refsem.UN[k].format(text_scaled(f[1], P))
    if k in refsem.BIN:
        return refsem.BIN[k].format(text_scaled(f[1], P), text_scaled(f[2], P))
    return text(f)


def text_spelled(f, fa, fb):
    """text of f with every interval bound v written fa % v / fb % v"""
    f = T(f)
    k = f[0]
    if k in refsem.UNT:
        return refsem.UNT[k].format(text_spelled(f[1], fa, fb), a=fa % f[2], b=fb % f[3])
    if k in refsem.BINT:
        return refsem.BINT[k].format(text_spelled(f[1], fa, fb), text_spelled(f[2], fa, fb), a=fa % f[3], b=fb % f[4])
    if k in refsem.UN:
        return refsem.UN[k].format(text_spelled(f[1], fa, fb))
    if k in refsem.BIN:
        return refsem.BIN[k].format(text_spelled(f[1], fa, fb), text_spelled(f[2], fa, fb))
    return text(f)


def h_grid(f, N, P, mode='offline', spell=None, defs=None, reparse=None, reconf=None):
    main = T(f)
    if defs:
        from .c09 import inline
        defs = [(n, T(d)) for n, d in defs]
        dd = {}
        for n, d in defs:
            dd[n] = inline(d, dd)
        f = inline(main, dd)
    f = T(f)
    P = Fraction(P)
    vs = sorted(variables(f))
    h = hor(f)

    def body(env):
        A = env.A
        w = dt.trace(env, vs, N)
        if spell:
            # the bounds of f (in samples) written with explicit/default units; one sample every `scale` default units
            fa, fb, unit, scale, per = spell
            txt = 'out = ' + text_spelled(f, fa, fb)
            if reconf:
                # the discrete-time object was used under ANOTHER sampling period before (same recording tool, another log): it is
                # re-configured for this trace and must then agree with the dense-time monitor like a fresh object
                import rtamt
                sd = dt.make_spec('offline~', txt, vs, unit=unit, period=tuple(reconf) + (0.1,))
                try:
                    dt.offline(sd, dt.trace(env, vs, N, prefix='old_'), N)
                except rtamt.RTAMTException:
                    pass
                sd.set_sampling_period(*(tuple(per) + (0.1,)))
            else:
                sd = dt.make_spec('offline~', txt, vs, unit=unit, period=tuple(per) + (0.1,))
            disc = [p[1] for p in dt.offline(sd, w, N)]
            sc = ct.make_spec(mode, txt, vs, unit=unit)
            args = [[v, [[k * scale, w[v][k]] for k in range(N)]] for v in vs]
        elif defs or reparse:
            # several assertions in one specification text (named sub-formulas first, 'out' last), or a specification object that was
            # parsed with another formula before: both monitors must report the LAST assertion
            scale = None
            txt = ''.join('%s = %s;\n' % (n, text(d)) for n, d in (defs or [])) + 'out = ' + text(main) + ';'
            names = [n for n, _ in (defs or [])]
            def mk(make, kind):
                if not reparse:
                    return make(kind, txt, vs + names)
                sp = make(kind, 'out = ' + text(T(reparse)), vs + names)
                sp.spec = txt
                sp.parse()
                return sp
            sd = mk(dt.make_spec, 'offline')
            disc = [p[1] for p in dt.offline(sd, w, N)]
            sc = mk(ct.make_spec, mode)
            args = [[v, [[float(k), w[v][k]] for k in range(N)]] for v in vs]
        else:
            scale = None
            txt = 'out = ' + text_scaled(f, P)
            period = None if P == 1 else (int(P * 1000), 'ms', 0.1)
            sd = dt.make_spec('offline~', txt, vs, period=period)
            disc = [p[1] for p in dt.offline(sd, w, N, [float(k * P) for k in range(N)])]
            sc = ct.make_spec(mode, txt, vs)
            args = [[v, [[float(k * P), w[v][k]] for k in range(N)]] for v in vs]
        dense = sc.evaluate(*args) if mode == 'offline' else sc.update(*args)
        dense = [list(p) for p in dense]
        env.observe('discrete', disc)
        ref = rho(A, f, w, N)
        res = dt.eq_list(A, 'discrete-rho', disc, ref)
        res += ct.wellformed(A, dense, 'dense')
        if not dense:
            return res + [('dense-nonempty', A.false)]
        for k in range(N):
            if k + h < N:
                t = float(k * P) if scale is None else k * scale
                if mode == 'online':
                    # the online output covers [first, last output time]
                    inside = A.And(A.le(dense[0][0], t), A.le(t, dense[-1][0]))
                    res.append(('grid@%d' % k, A.Or(A.Not(inside), A.eq(refct.val(A, dense, t), disc[k]))))
                else:
                    res.append(('covers@%d' % k, A.le(dense[0][0], t)))
                    res.append(('grid@%d' % k, A.eq(refct.val(A, dense, t), disc[k])))
        return res
    return body


FR_UN = ['not', 'neg', 'abs', 'once', 'historically']
FR_UNT = ['once_t', 'historically_t', 'eventually_t', 'always_t']
FR_BIN = ['and', 'or', 'implies', 'iff', 'xor', 'add', 'sub', 'mul', 'leq', 'lt', 'geq', 'gt', 'eq', 'neq']


def obligations(tier, rng):
    quick = tier == 'quick'
    out = []
    bounds = [(0, 1), (1, 2), (0, 2), (1, 1)] if quick else [(0, 0), (0, 1), (1, 1), (0, 2), (1, 2), (2, 2), (1, 3)]
    ops = FR_UN + FR_UNT + FR_BIN
    f1 = refsem.f1(bounds, ops=set(ops))
    for f in f1:
        for P in (['1', '1/2'] if f[0] in FR_UNT else ['1']):
            for N in ([4] if quick else [3, 5, 7]):
                out.append(ob('C19', 'grid', 'F1/%s/P=%s/N=%d' % (text(f), P, N), f=f, N=N, P=P, max_paths=30000, wall=900))
                if not refsem.has_future(f) and N <= 5:
                    out.append(ob('C19', 'grid', 'F1-online/%s/P=%s/N=%d' % (text(f), P, N), f=f, N=N, P=P, mode='online', max_paths=30000, wall=900))
    f2 = refsem.depth2([k for k in ops if k != 'mul'], ops, [(0, 1), (1, 2)])     # no product of two compound terms (z3 NRA)
    f2 = [f for f in f2 if len(variables(f)) <= 2 or f[0] in FR_BIN]
    if quick:
        f2 = rng.sample(f2, 60)
    elif len(f2) > 900:
        f2 = rng.sample(f2, 900)
    for f in f2:
        h = hor(f)
        N = max(4, h + 2)
        P = '1/2' if (refsem.has(f, set(FR_UNT)) and rng.random() < 0.4) else '1'
        out.append(ob('C19', 'grid', 'F2/%s/P=%s/N=%d' % (text(f), P, N), f=f, N=N, P=P, max_paths=40000, wall=1200))
    # wider windows (several samples per window)
    for k in FR_UNT:
        for a, b in [(0, 3), (1, 4)]:
            f = (k, X, a, b)
            N = 6 if quick else 7
            out.append(ob('C19', 'grid', 'wide/%s/P=1/N=%d' % (text(f), N), f=f, N=N, P='1', max_paths=60000, wall=(300 if quick else 1500)))
    # bounds written with units: both monitors must read them the same way (unit-less bound next to a unit-bearing one, default unit
    # different from the unit written, sampling period given in another unit)
    SP = [('s-default', '%d', '%d', None, 1, (1, 's')), ('end-only', '%d', '%ds', None, 1, (1, 's')), ('ms-default-end-s', '%d', '%ds', 'ms', 1000, (1, 's')),
          ('ms-default-begin-s', '%ds', '%d', 'ms', 1000, (1000, 'ms')), ('ms-default-both-s', '%ds', '%ds', 'ms', 1000, (1, 's')),
          ('mixed', '%d000ms', '%ds', None, 1, (1000, 'ms')), ('ms-default', '%d', '%d', 'ms', 1, (1, 'ms')),
          ('us-default-end-ms', '%d', '%dms', 'us', 1000, (1, 'ms'))]
    for k in FR_UNT:
        for a, b in ([(1, 2)] if quick else [(1, 2), (0, 1), (2, 3)]):
            f = (k, X, a, b)
            for name, fa, fb, unit, scale, per in SP:
                if a == 0 and fa.endswith('000ms'):
                    continue
                for mode in ['offline'] + ([] if refsem.has_future(f) else ['online']):
                    N = 4
                    out.append(ob('C19', 'grid', 'units/%s/%s/%s/N=%d' % (mode, name, text_spelled(f, fa, fb), N), f=f, N=N, P='1', mode=mode,
                                  spell=[fa, fb, unit, scale, list(per)], max_paths=40000, wall=900))
    for f in [('always_t', ('implies', X, ('eventually_t', Y, 0, 1)), 0, 1), ('once_t', ('historically_t', X, 1, 2), 0, 1)]:
        for name, fa, fb, unit, scale, per in SP[2:5]:
            out.append(ob('C19', 'grid', 'units/offline/%s/%s/N=5' % (name, text_spelled(f, fa, fb)), f=f, N=5, P='1', spell=[fa, fb, unit, scale, list(per)],
                          max_paths=40000, wall=900))
    # the discrete-time object was used under another sampling period before and is re-configured for this trace
    for k in FR_UNT:
        f = (k, X, 1, 2)
        for name, fa, fb, unit, scale, per in [SP[0], SP[4], SP[5]]:
            for old in ([(500, 'ms')] if quick else [(500, 'ms'), (2, 's'), (250, 'ms')]):
                out.append(ob('C19', 'grid', 'units-reconfigured/offline/%s/%s/was=%d%s' % (name, text_spelled(f, fa, fb), old[0], old[1]), f=f, N=4, P='1', mode='offline',
                              spell=[fa, fb, unit, scale, list(per)], reconf=list(old), max_paths=40000, wall=900))
    # several assertions in one text / a specification object parsed before with another formula
    Pv, Qv = ('var', 'p'), ('var', 'q')
    multi = [([['p', ('once_t', X, 0, 2)]], ('sub', ('eventually_t', Pv, 0, 2), Y)), ([['p', ('geq', X, ('const', 1.0))]], ('historically', Pv)),
             ([['p', ('abs', X)], ['q', ('once', Pv)]], ('and', Qv, ('not', Pv))), ([['p', ('always_t', X, 0, 1)]], ('or', Pv, Y))]
    for defs, m in multi:
        from .c09 import inline as _inl
        dd = {}
        for n, d in defs:
            dd[n] = _inl(T(d), dd)
        full = _inl(T(m), dd)
        N = hor(full) + 3
        for mode in ['offline'] + ([] if refsem.has_future(full) else ['online']):
            out.append(ob('C19', 'grid', 'multi/%s/%s/out=%s' % (mode, ';'.join('%s=%s' % (n, text(d)) for n, d in defs), text(m)), f=m, N=N, P='1', mode=mode,
                          defs=defs, max_paths=40000, wall=900))
    for f, old in [(('once_t', X, 0, 1), ('historically', X)), (('and', X, ('not', Y)), ('or', X, Y)), (('eventually_t', ('neg', X), 0, 1), ('always_t', X, 0, 2))]:
        for mode in ['offline'] + ([] if refsem.has_future(f) else ['online']):
            out.append(ob('C19', 'grid', 'reparse/%s/%s/was=%s' % (mode, text(f), text(old)), f=f, N=hor(f) + 3, P='1', mode=mode, reparse=old, max_paths=40000, wall=900))
    # nestings of the unbounded past operators (they share visitor fields in the dense-time monitor)
    for k1 in ('once', 'historically'):
        for k2 in ('once', 'historically'):
            for f in [(k1, (k2, X)), (k1, ('or', X, (k2, Y))), (k1, ('and', (k2, X), Y)), (k1, ('implies', X, (k2, Y))),
                      ('and', (k1, X), (k2, Y)), (k1, ('not', (k2, X)))]:
                out.append(ob('C19', 'grid', 'nest/%s/N=4' % text(f), f=f, N=4, P='1', max_paths=40000, wall=1200))
                if k1 != k2:
                    out.append(ob('C19', 'grid', 'nest-online/%s/N=3' % text(f), f=f, N=3, P='1', mode='online', max_paths=40000, wall=1200))
    # one variable used twice, once under an operator that could rewrite its samples in place
    for un in ('abs', 'neg', 'not', 'once', 'historically'):
        for f in [('and', (un, X), X), ('sub', X, (un, X)), ('or', ('once_t', (un, X), 0, 1), ('historically_t', X, 0, 1))]:
            for mode in ('offline', 'online'):
                out.append(ob('C19', 'grid', 'twice/%s/%s/N=4' % (mode, text(f)), f=f, N=4, P='1', mode=mode, max_paths=40000, wall=900))
    # specification-shaped examples
    for f in [('implies', ('geq', X, ('const', 3.0)), ('eventually_t', ('geq', Y, ('const', 3.0)), 0, 2)),
              ('always_t', ('or', ('leq', X, Y), ('once_t', ('gt', Y, ('const', 0.0)), 0, 1)), 0, 2),
              ('historically', ('implies', ('gt', X, ('const', 0.0)), ('once_t', ('lt', Y, X), 1, 2)))][:1 if quick else 3]:
        out.append(ob('C19', 'grid', 'spec/%s/N=4' % text(f), f=f, N=4, P='1', max_paths=60000, wall=1500))
    seen = set()
    res_ = [o for o in out if not (o['oid'] in seen or seen.add(o['oid']))]
    from .. import core as _core
    res_ = res_ + _core.make_twins(res_, [('F1/once[0,1](x)/P=1/N=4', 'window'), ('F1/(x) and (y)/P=1/N=4', 'minmax')]) + _core.make_forkmode(res_, [])
    return res_
