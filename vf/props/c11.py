"""C11 — evaluation is pure: caller data untouched, repeatable, isolated, deterministic."""
import itertools
import json
import os
import subprocess
import sys

from .. import ct, dt, refct, refsem, symx
from ..core import ob
from ..refsem import T, text, variables, rho, X, Y

INFO = {
    'functions': ['all four evaluate()/update() entry points and every visitor below them (as C01-C05)', 'rtamt.syntax.ast.parser.abstract_ast_parser (shared class-level state)',
                  'module-level state of rtamt.semantics.*'],
    'bounds': {'quick': 'caller data: every operator (F1) x bounds x N in 1,2,4 (N below and above the bounds) offline, online, dense offline/online; repeatability: evaluate twice; '
                        'isolation: two objects, every interleaving of 2+2 calls (3+3 in thorough) against the solo runs; hash seed: 3 PYTHONHASHSEED values (enumeration, not solver-decided); tuple columns; the notation cases of vf/pool.py evaluated three times',
               'thorough': 'N up to 6, F2 sample, 16 hash seeds'},
    'outside': 'the hash-seed clause is decided by enumeration of seeds, not by the solver (the seed is not an input of the encoded code)',
    'assumptions': ['"untouched" = same container structure and the same element objects / solver-equal terms before and after each call'],
    'explanation': 'after each call, on each path, the caller\'s containers are compared with a structural snapshot; results of repeated/interleaved calls are compared by z3 for all values',
}


def snap(x):
    if isinstance(x, dict):
        return ('dict', [(k, snap(v)) for k, v in x.items()])
    if isinstance(x, list):
        return ('list', [snap(v) for v in x])
    if isinstance(x, tuple):
        return ('tuple', [snap(v) for v in x])
    return ('leaf', x)


def same(A, label, before, now, out):
    """compare current structure `now` against snapshot `before`"""
    kind = before[0]
    if kind == 'dict':
        ok = isinstance(now, dict) and list(now.keys()) == [k for k, _ in before[1]]
        out.append((label + '-keys', A.bool(ok)))
        if ok:
            for k, s in before[1]:
                same(A, '%s.%s' % (label, k), s, now[k], out)
    elif kind in ('list', 'tuple'):
        ok = isinstance(now, list if kind == 'list' else tuple) and len(now) == len(before[1])
        out.append((label + '-len', A.bool(ok)))
        if ok:
            for i, s in enumerate(before[1]):
                same(A, '%s[%d]' % (label, i), s, now[i], out)
    else:
        old = before[1]
        if isinstance(old, str) or isinstance(now, str):
            out.append((label + '-leaf', A.bool(old == now)))
        else:
            out.append((label + '-leaf', A.bool(now is old) if A.symbolic and isinstance(old, symx.Sym) else A.eq(now, old)))


def h_dt_data(f, N, mode, period=None, txt=None, cols='list'):
    f = T(f)
    vs = sorted(variables(f))

    def body(env):
        A = env.A
        res = []
        w = dt.trace(env, vs, N, ext=False)
        if mode == 'offline':
            s = dt.make_spec('offline~', 'out = ' + (txt or text(f)), vs, period=period, f=f)
            mkcol = tuple if cols == 'tuple' else list          # columns given as another sequence type stay the caller's objects too
            data = {'time': mkcol(range(N))}
            for v in vs:
                data[v] = mkcol(w[v])
            before = snap(data)
            ids = {k: id(c) for k, c in data.items()}
            r1 = s.evaluate(data)
            same(A, 'data', before, data, res)
            res.append(('data-same-objects', A.bool(all(id(data[k]) == i for k, i in ids.items()))))
            r1v = [p[1] for p in r1]
            r2 = s.evaluate(data)
            same(A, 'data2', before, data, res)
            env.observe('out', r1v)
            res += dt.eq_list(A, 'repeat', [p[1] for p in r2], r1v)
            r3 = s.evaluate(data)
            res += dt.eq_list(A, 'repeat3', [p[1] for p in r3], r1v)
            res += dt.eq_list(A, 'repeat-rho', r1v, refsem.rho(A, f, w, N))
        else:
            s = dt.make_spec('online~', 'out = ' + text(f), vs, f=f)
            outs = []
            for i in range(N):
                data = [[v, w[v][i]] for v in vs]
                before = snap(data)
                outs.append(s.update(i, data))
                same(A, 'data@%d' % i, before, data, res)
            env.observe('out', outs)
        return res
    return body


def h_fail_between(txt, vs, N, kind='offline'):
    """offline repeatability across a FAILING call: evaluate(d), then an evaluate() that raises part-way (division by exactly zero in a later
    assertion, after earlier assertions have been computed), then evaluate(d) again on the same object: same result as the first time"""
    def body(env):
        A = env.A
        s = dt.make_spec(kind, txt, vs)
        w = dt.trace(env, vs, N, ext=False)
        for x in w.get('y', []):
            env.assume(A.Or(A.lt(x, 0), A.lt(0, x)))
        d = {'time': list(range(N))}
        for v in vs:
            d[v] = list(w[v])
        r1 = [p[1] for p in s.evaluate(d)]
        bad = {'time': list(range(N))}
        for v in vs:
            bad[v] = [0.0 if v == 'y' else 7.0 + i for i in range(N)]
        try:
            s.evaluate(bad)
        except ZeroDivisionError:
            pass
        r2 = [p[1] for p in s.evaluate(d)]
        env.observe('again', r2)
        return dt.eq_list(A, 'repeat-after-failure', r2, r1)
    return body


def h_ct_data(f, ns, mode, overlap=False, closed=False, first_all=False, dup=False):
    f = T(f)
    vs = sorted(variables(f))

    def body(env):
        A = env.A
        res = []
        s = ct.make_spec(mode, 'out = ' + text(f), vs)
        sigs = {v: ct.signal(env, v, n, 'zero') for v, n in zip(vs, ns)}
        if dup:
            # the same variable named in two [name, samples] pairs of ONE call (accepted silently): whatever the monitor makes of it, the
            # caller's lists stay as they were, and a second call on the same objects does the same
            v0 = vs[0]
            args = [[v0, [list(p) for p in sigs[v0][:1]]], [v0, [list(p) for p in sigs[v0][1:]]]] + [[v, [list(p) for p in sigs[v]]] for v in vs[1:]]
            before = snap(args)
            call = (lambda: s.evaluate(*args)) if mode == 'offline' else (lambda: s.update(*args))
            for rnd in (1, 2):
                try:
                    call()
                except Exception as e:
                    import rtamt
                    if not isinstance(e, rtamt.RTAMTException):
                        raise
                same(A, 'data-dup@%d' % rnd, before, args, res)
            env.observe('out', 0)
            return res
        if mode == 'offline':
            args = [[v, [list(p) for p in sigs[v]]] for v in vs]
            if closed:
                # the caller closes each signal with a sample at +inf (the library's own way of writing "constant from here on")
                for v, sg in args:
                    sg.append([float('inf'), sg[-1][1]])
            before = snap(args)
            r1 = s.evaluate(*args)
            same(A, 'data', before, args, res)
            r1 = [list(p) for p in r1]
            r2 = s.evaluate(*args)
            same(A, 'data2', before, args, res)
            env.observe('out', r1)
            res.append(('repeat-length', A.bool(len(r1) == len(r2))))
            if len(r1) == len(r2):
                for i in range(len(r1)):
                    res.append(('repeat@%d' % i, A.And(A.eq(r1[i][0], r2[i][0]), A.eq(r1[i][1], r2[i][1]))))
        else:
            cut = [max(1, n // 2) for n in ns] if not first_all else list(ns)      # first_all: the whole signal in the first update(), nothing in the second
            for part in (0, 1):
                # overlap: the second batch starts with (a copy of) the sample the first batch ended with - the usage the
                # online operators explicitly allow for ("if buf[-1][0] == sample[0][0]: skip it")
                lo = (lambda c: c - 1) if overlap else (lambda c: c)
                args = [[v, [list(p) for p in (sigs[v][:c] if part == 0 else sigs[v][lo(c):])]] for v, c in zip(vs, cut)]
                before = snap(args)
                o = s.update(*args)
                same(A, 'data@%d' % part, before, args, res)
                for v, sg in args:
                    got = s.get_value(v) if v in variables(f) else sg
                    res.append(('get_value-%s@%d-len' % (v, part), A.bool(len(got) == len(sg))))
                    if len(got) == len(sg):
                        for i in range(len(sg)):
                            res.append(('get_value-%s@%d.%d' % (v, part, i), A.And(A.eq(got[i][0], sg[i][0]), A.eq(got[i][1], sg[i][1]))))
        return res
    return body


def h_isolation(fa, fb, order, N, kind):
    """two objects; `order` is a string over 'a','b' giving the interleaving of their calls"""
    fa, fb = T(fa), T(fb)

    def body(env):
        A = env.A
        res = []
        na, nb = order.count('a'), order.count('b')

        def mk(f):
            vs = sorted(variables(f))
            if kind == 'dt-online':
                return dt.make_spec('online', 'out = ' + text(f), vs), vs
            if kind == 'dt-offline':
                return dt.make_spec('offline', 'out = ' + text(f), vs), vs
            return ct.make_spec('online' if kind == 'ct-online' else 'offline', 'out = ' + text(f), vs), vs

        def call(s, vs, w, i):
            if kind == 'dt-online':
                return [s.update(i, [(v, w[v][i]) for v in vs])]
            if kind == 'dt-offline':
                return [p[1] for p in dt.offline(s, {v: w[v][i * N:(i + 1) * N] for v in vs}, N)]
            args = [[v, [list(p) for p in w[v][i * N:(i + 1) * N]]] for v in vs]
            o = s.update(*args) if kind == 'ct-online' else s.evaluate(*args)
            return [x for p in o for x in p]

        def data(f, tag, calls):
            vs = sorted(variables(f))
            if kind == 'dt-online':
                return dt.trace(env, vs, calls, prefix=tag)
            if kind == 'dt-offline':
                return dt.trace(env, vs, calls * N, prefix=tag)
            return {v: ct.signal(env, tag + v, calls * N, 'zero') for v in vs}

        wa, wb = data(fa, 'a_', na), data(fb, 'b_', nb)
        # interleaved
        (sa, va), (sb, vb) = mk(fa), mk(fb)
        ia = ib = 0
        ra, rb = [], []
        for c in order:
            if c == 'a':
                ra.append(call(sa, va, wa, ia)); ia += 1
            else:
                rb.append(call(sb, vb, wb, ib)); ib += 1
        # solo
        (s1, _), (s2, _) = mk(fa), mk(fb)
        qa = [call(s1, va, wa, i) for i in range(na)]
        qb = [call(s2, vb, wb, i) for i in range(nb)]
        env.observe('a', ra)
        for nm, x, y in (('a', ra, qa), ('b', rb, qb)):
            for i in range(len(x)):
                res.append(('iso-%s-len@%d' % (nm, i), A.bool(len(x[i]) == len(y[i]))))
                if len(x[i]) == len(y[i]):
                    for j in range(len(x[i])):
                        res.append(('iso-%s@%d.%d' % (nm, i, j), A.eq(x[i][j], y[i][j])))
        return res
    return body


def h_isolation_cfg(txt, fa, fb, pa, pb, order, N, mode='offline', ua=None, ub=None):
    """two objects with the SAME specification text and different per-object configuration (sampling period): what one object
    computes must not leak into the other through state that lives outside the objects.  Solo runs in the same process would
    be polluted the same way, so every call is compared with the README semantics of the text under that object's own period
    (fa / fb: the formula with its bounds in samples)."""
    fa, fb = T(fa), T(fb)

    def body(env):
        A = env.A
        vs = sorted(variables(fa))
        kind = 'offline~' if mode == 'offline' else 'online'
        objs = {}
        res = []
        cnt = {'a': 0, 'b': 0}
        got_all = []
        for c in order:
            if c not in objs:                                  # an object is built right before its first call
                objs[c] = dt.make_spec(kind, 'out = ' + txt, vs, period=list(pa if c == 'a' else pb), unit=(ua if c == 'a' else ub))
            f = fa if c == 'a' else fb
            w = dt.trace(env, vs, N, prefix='%s%d_' % (c, cnt[c]))
            if mode == 'offline':
                got = [p[1] for p in dt.offline(objs[c], w, N)]
                want = rho(A, f, w, N)
                res += dt.eq_list(A, 'cfg-%s%d' % (c, cnt[c]), got, want)
                got_all.append(got)
            cnt[c] += 1
        env.observe('out', got_all)
        return res
    return body


def h_hashseed(seeds):
    """configuration enumeration, not solver-decided: canonical SMT-LIB rendering of result terms under several hash seeds"""
    def body(env):
        A = env.A
        env.real('dummy')
        digests = []
        for sd in seeds:
            e = dict(os.environ)
            e['PYTHONHASHSEED'] = str(sd)
            p = subprocess.run([sys.executable, '-m', 'vf.hashseed'], env=e, capture_output=True, text=True, timeout=600)
            if p.returncode != 0:
                raise symx.Inconclusive('hashseed subprocess failed: ' + p.stderr[-300:])
            digests.append(p.stdout.strip().splitlines()[-1])
        env.observe('digests', [len(set(digests))])
        return [('same-under-all-seeds', A.bool(len(set(digests)) == 1))]
    return body


def interleavings(na, nb):
    out = set()
    for p in itertools.permutations('a' * na + 'b' * nb):
        out.add(''.join(p))
    return sorted(out)


def h_poolct(idx):
    """a case of the shared dense-time online pool (vf/poolct.py)"""
    def body(env):
        from .. import poolct
        outs, res = ct.run_pool_case(env, poolct.CASES[idx], check=('pure',))
        env.observe('updates', len(outs))
        return res
    return body


def obligations(tier, rng):
    quick = tier == 'quick'
    out = []
    from .. import poolct as _pc
    for _i, _c in enumerate(_pc.CASES):
        out.append(ob('C11', 'poolct', 'pool-ct-pure/%d/%s/%s' % (_i, text(_c[0]), ';'.join(','.join(map(str, q)) or '-' for q in _c[2])), idx=_i, max_paths=60000, wall=900))
    bounds = [(0, 1), (1, 2), (0, 3), (2, 5)] if quick else refsem.BOUNDS_Q + [(2, 5), (0, 6)]
    f1 = refsem.f1(bounds, arith=False)
    for f in f1:
        for N in ([1, 2, 4] if quick else [1, 2, 3, 4, 6]):
            out.append(ob('C11', 'dt_data', 'data/dt-offline/%s/N=%d' % (text(f), N), f=f, N=N, mode='offline'))
            if not refsem.has_future(f) and N in (2, 4):
                out.append(ob('C11', 'dt_data', 'data/dt-online/%s/N=%d' % (text(f), N), f=f, N=N, mode='online'))
    # repeated evaluation when bounds are not plain sample counts (sampling period / explicit units)
    for f, txt, period in [(('always_t', X, 0, 2), 'always[0,1](x)', (500, 'ms', 0.1)), (('once_t', X, 1, 2), 'once[500ms,1s](x)', (500, 'ms', 0.1)),
                           (('eventually_t', X, 0, 2), 'eventually[0,2000ms](x)', None), (('since_t', X, Y, 1, 2), '(x) since[1s,2000ms] (y)', None),
                           (('until_t', X, Y, 0, 2), '(x) until[0,1](y)', (500, 'ms', 0.1)), (('historically_t', X, 1, 3), 'historically[1000ms,3s](x)', None)]:
        out.append(ob('C11', 'dt_data', 'repeat-units/%s/p=%s' % (txt, period), f=f, N=5, mode='offline', txt=txt, period=list(period) if period else None))
    # columns that are tuples (any sequence the evaluator accepts): still the caller's objects afterwards
    for f in [('and', X, Y), ('geq', X, Y), ('not', X), ('once', X), ('historically', X), ('always', X), ('eventually', X), ('since', X, Y), ('until', X, Y),
              ('sub', X, Y), ('implies', X, Y), ('abs', X), ('prev', X), ('eventually_t', X, 0, 1), ('always_t', X, 0, 1)]:
        out.append(ob('C11', 'dt_data', 'data/dt-offline-tuples/%s/N=4' % text(f), f=f, N=4, mode='offline', cols='tuple'))
    for txt in ['a = (x) - (1.0);\nout = always(((a) / (y)) >= (1.0))', 'a = once[0,1](x);\nb = (a) / (y);\nout = (b) >= (a)', 'out = ((x) / (y)) >= (1.0)',
                'a = (x) >= (1.0);\nb = historically(a);\nout = (b) and (((x) / (y)) >= (0.0))']:
        for kind in ('offline', 'combined'):
            out.append(ob('C11', 'fail_between', 'repeat-after-failing-call/%s/%s' % (kind, txt.replace('\n', ' ')), txt=txt, vs=['x', 'y'], N=3, kind=kind))
    from .. import pool
    for g in pool.ALL:
        out.append(ob('C11', 'dt_data', 'repeat-pool/dt-offline/%s/P=%s/unit=%s' % (g[1], g[3] or '-', g[4] or '-'), f=g, N=5, mode='offline'))
    for g in pool.PAST:
        out.append(ob('C11', 'dt_data', 'data-pool/dt-online/%s/P=%s/unit=%s' % (g[1], g[3] or '-', g[4] or '-'), f=g, N=4, mode='online'))
    dense_un = ['not', 'abs', 'once', 'historically', 'eventually', 'always']
    dense_bin = ['and', 'or', 'implies', 'sub', 'geq', 'eq', 'since', 'until']
    dfs = [(k, X) for k in dense_un] + [(k, X, a, b) for k in ('once_t', 'historically_t', 'eventually_t', 'always_t') for a, b in [(0, 1), (1, 2)]]
    dfs += [(k, X, Y) for k in dense_bin] + [('since_t', X, Y, 0, 1), ('until_t', X, Y, 0, 1)]
    for f in dfs:
        two = len(variables(f)) > 1
        for mode in ('offline', 'online'):
            if mode == 'online' and refsem.has_future(f):
                continue
            out.append(ob('C11', 'ct_data', 'data/ct-%s/%s' % (mode, text(f)), f=f, ns=[2, 2] if two else [3], mode=mode,
                          max_paths=20000, wall=600))
            if mode == 'offline':
                out.append(ob('C11', 'ct_data', 'data/ct-offline-dup-name/%s' % text(f), f=f, ns=[2, 2] if two else [3], mode=mode, dup=True, max_paths=20000, wall=600))
            if mode == 'offline' and (two or f[0] in ('once', 'always_t', 'not')):
                out.append(ob('C11', 'ct_data', 'data/ct-offline-inf-closed/%s' % text(f), f=f, ns=[2, 2] if two else [3], mode=mode, closed=True,
                              max_paths=20000, wall=600))
            if mode == 'online':
                out.append(ob('C11', 'ct_data', 'data/ct-online-overlap/%s' % text(f), f=f, ns=[2, 2] if two else [3], mode=mode, overlap=True,
                              max_paths=20000, wall=600))
                out.append(ob('C11', 'ct_data', 'data/ct-online-dup-name/%s' % text(f), f=f, ns=[2, 2] if two else [3], mode=mode, dup=True, max_paths=20000, wall=600))
                # the whole signal in the FIRST update() (the buffers of the operations are still empty), then an empty batch
                out.append(ob('C11', 'ct_data', 'data/ct-online-first-all/%s' % text(f), f=f, ns=[2, 2] if two else [3], mode=mode, first_all=True,
                              max_paths=20000, wall=600))
    pairs = [(('once_t', X, 0, 1), ('historically_t', X, 0, 1)), (('prev', X), ('prev', X)), (('since', X, Y), ('once', X)),
             (('rise', X), ('add', X, Y))]
    for fa, fb in pairs:
        for order in interleavings(2, 2) if quick else interleavings(3, 3):
            out.append(ob('C11', 'isolation', 'iso/dt-online/%s|%s/%s' % (text(fa), text(fb), order), fa=fa, fb=fb, order=order, N=1, kind='dt-online'))
    for fa, fb in [(('always_t', X, 0, 2), ('eventually_t', X, 0, 2)), (('until', X, Y), ('once', X))]:
        for order in interleavings(2, 2):
            out.append(ob('C11', 'isolation', 'iso/dt-offline/%s|%s/%s' % (text(fa), text(fb), order), fa=fa, fb=fb, order=order, N=2, kind='dt-offline'))
    for fa, fb in [(('once_t', X, 0, 1), ('once', X)), (('once', X), ('historically', X))] + \
            ([] if quick else [(('once_t', X, 0, 1), ('once_t', X, 0, 1))]):
        for order in (interleavings(2, 2) if not quick else ['abab', 'baab', 'aabb']):
            out.append(ob('C11', 'isolation', 'iso/ct-online/%s|%s/%s' % (text(fa), text(fb), order), fa=fa, fb=fb, order=order, N=2, kind='ct-online',
                          max_paths=20000, wall=600))
    for fa, fb in [(('always', X), ('once_t', X, 0, 1))]:
        for order in ['abab', 'baba']:
            out.append(ob('C11', 'isolation', 'iso/ct-offline/%s|%s/%s' % (text(fa), text(fb), order), fa=fa, fb=fb, order=order, N=2, kind='ct-offline',
                          max_paths=20000, wall=600))
    # same text, different sampling periods: a bound of 2 s is 2 samples for one object and 1 (or 4) for the other
    for txt, fa, fb, pa, pb in [('once[0:2s](x)', ('once_t', X, 0, 2), ('once_t', X, 0, 1), (1, 's'), (2, 's')),
                                ('always[0,2](x)', ('always_t', X, 0, 2), ('always_t', X, 0, 4), (1, 's'), (500, 'ms')),
                                ('(x) since[1000ms:2s] (y)', ('since_t', X, Y, 1, 2), ('since_t', X, Y, 2, 4), (1000, 'ms'), (500, 'ms'))]:
        for order in ['aba', 'abab', 'baa']:
            out.append(ob('C11', 'isolation_cfg', 'iso-cfg/dt-offline/%s/%s|%s/%s' % (txt, pa, pb, order), txt=txt, fa=fa, fb=fb, pa=list(pa), pb=list(pb), order=order, N=5))
    # same text and same sampling period, different DEFAULT UNITS: unit-less bounds mean other durations for the two objects
    for txt, fa, fb, per, ua, ub in [('once[0,2000](x)', ('once_t', X, 0, 2), ('once_t', X, 0, 2000), (1, 's'), 'ms', 's'),
                                     ('(x) since[0,4] (y)', ('since_t', X, Y, 0, 2), ('since_t', X, Y, 0, 2000), (2, 'ms'), 'ms', 's')]:
        for order in ['aba', 'bab']:
            out.append(ob('C11', 'isolation_cfg', 'iso-unit/dt-offline/%s/P=%s/%s|%s/%s' % (txt, per, ua, ub, order), txt=txt, fa=fa, fb=fb, pa=list(per), pb=list(per), ua=ua, ub=ub,
                          order=order, N=4, wall=300))
    out.append(ob('C11', 'hashseed', 'hashseed/%d-seeds' % (3 if quick else 16), seeds=list(range(3 if quick else 16)), validate=0, wall=1200))
    return out
