"""C18 — temporal dualities and expansion laws hold in every monitor."""
from .. import ct, dt, refct, refsem, symx
from ..core import ob
from ..refsem import T, text, variables, hor, X, Y, Z

INFO = {
    'functions': ['discrete offline visitor, discrete online operations, dense offline visitor, dense online operations (both sides of each law run through the same monitor)',
                  'pastifier for the bounded-future laws run online'],
    'bounds': {'quick': 'laws: not F[a,b] p = G[a,b] not p; not O[a,b] p = H[a,b] not p (bounded and unbounded); p -> q = not p or q; F[a,b]F[c,d] p = F[a+c,b+d] p (same for O); '
                        'p S q and p U q expansions (discrete). Operands: variables with extended-real samples and 6 compound operands; bounds (0,1)(1,2)(0,2)(2,2) and pairs; '
                        'N in 1,3,5 discrete; dense n=3 (2+2), tau symbolic',
               'thorough': 'all bounds 0<=a<=b<=3, N up to 8, dense n=4'},
    'outside': 'laws not listed in the property',
    'assumptions': ['dense time: both sides are compared at every instant tau of the common input domain (offline) / of the range both outputs cover (online)'],
    'explanation': 'both sides of a law are two specifications on the same monitor kind and the same symbolic trace; z3 decides equality of the returned signals for all values',
}


def laws(bounds, pairs):
    out = []
    for a, b in bounds:
        out.append(('dual-F/%d,%d' % (a, b), ('not', ('eventually_t', X, a, b)), ('always_t', ('not', X), a, b)))
        out.append(('dual-G/%d,%d' % (a, b), ('not', ('always_t', X, a, b)), ('eventually_t', ('not', X), a, b)))
        out.append(('dual-O/%d,%d' % (a, b), ('not', ('once_t', X, a, b)), ('historically_t', ('not', X), a, b)))
        out.append(('dual-H/%d,%d' % (a, b), ('not', ('historically_t', X, a, b)), ('once_t', ('not', X), a, b)))
    out.append(('dual-O/unb', ('not', ('once', X)), ('historically', ('not', X))))
    out.append(('dual-H/unb', ('not', ('historically', X)), ('once', ('not', X))))
    out.append(('dual-F/unb', ('not', ('eventually', X)), ('always', ('not', X))))
    out.append(('implies', ('implies', X, Y), ('or', ('not', X), Y)))
    for (a, b), (c, d) in pairs:
        out.append(('FF/%d,%d;%d,%d' % (a, b, c, d), ('eventually_t', ('eventually_t', X, c, d), a, b), ('eventually_t', X, a + c, b + d)))
        out.append(('OO/%d,%d;%d,%d' % (a, b, c, d), ('once_t', ('once_t', X, c, d), a, b), ('once_t', X, a + c, b + d)))
    out.append(('since-exp', ('since', X, Y), ('or', Y, ('and', X, ('s_prev', ('since', X, Y))))))
    out.append(('until-exp', ('until', X, Y), ('or', Y, ('and', X, ('s_next', ('until', X, Y))))))
    return out


OPERANDS = {
    'var': {},
    'pred': {'x': ('geq', X, ('const', 0.5)), 'y': ('lt', Y, Z)},
    'past': {'x': ('once_t', X, 0, 1), 'y': ('prev', Y)},
    'bool': {'x': ('and', X, Z), 'y': ('not', Y)},
    'since': {'x': ('since', X, Z), 'y': ('historically', Y)},
    'rise': {'x': ('rise', X), 'y': ('abs', Y)},
    'fut': {'x': ('eventually_t', X, 0, 1), 'y': ('next', Y)},
}


def subst(f, m):
    f = T(f)
    if f[0] == 'var':
        return m.get(f[1], f)
    if f[0] == 'const':
        return f
    return tuple(subst(c, m) if isinstance(c, tuple) else c for c in f)


def h_dt(l, r, N, mode, ext=True, pre=0):
    l, r = T(l), T(r)
    vs = sorted(variables(l) | variables(r))
    h = max(hor(l), hor(r))

    def body(env):
        A = env.A
        kind = 'offline' if mode == 'offline' else 'combined'
        sl = dt.make_spec(kind, 'out = ' + text(l), vs, pastify=(mode == 'pastified'))
        sr = dt.make_spec(kind, 'out = ' + text(r), vs, pastify=(mode == 'pastified'))
        w = dt.trace(env, vs, N, ext=ext)
        if mode == 'offline':
            gl = [p[1] for p in dt.offline(sl, w, N)]
            gr = [p[1] for p in dt.offline(sr, w, N)]
        else:
            if pre:
                # "the same monitor" also means a monitor with a history that was reset(): both sides are fed a history and reset first
                w0 = dt.trace(env, vs, pre, ext=False, prefix='pre_')
                dt.online(sl, w0, pre)
                dt.online(sr, w0, pre)
                sl.reset()
                sr.reset()
            gl, gr = dt.online(sl, w, N), dt.online(sr, w, N)
        env.observe('lhs', gl)
        if mode == 'pastified':
            # both sides have the same horizon; compare from i >= h on (before that the outputs are not meaningful)
            if hor(l) != hor(r):
                return [('same-horizon', A.false)]
            return [('law@%d' % i, A.eq(gl[i], gr[i])) for i in range(h, N)]
        return dt.eq_list(A, 'law', gl, gr)
    return body


def h_ct(l, r, ns, mode, grid=None, parts=None, pastify=False, unit=None):
    l, r = T(l), T(r)
    vs = sorted(variables(l) | variables(r))

    def body(env):
        A = env.A
        sl = ct.make_spec(mode, 'out = ' + text(l), vs, pastify=pastify, unit=unit)
        sr = ct.make_spec(mode, 'out = ' + text(r), vs, pastify=pastify, unit=unit)
        sigs = {v: ct.signal(env, v, n, 'zero', grid=grid) for v, n in zip(vs, ns)}
        mk = lambda: [[v, [list(p) for p in sigs[v]]] for v in vs]
        if mode == 'offline':
            ol, or_ = sl.evaluate(*mk()), sr.evaluate(*mk())
        elif parts:
            # the same signal fed to both monitors in several update() calls (concrete time grid, symbolic values)
            ol, or_ = [], []
            for part in parts:
                ol += sl.update(*[[v, [list(sigs[v][i]) for i in part]] for v in vs])
                or_ += sr.update(*[[v, [list(sigs[v][i]) for i in part]] for v in vs])
        else:
            ol, or_ = sl.update(*mk()), sr.update(*mk())
        ol, or_ = [list(p) for p in ol], [list(p) for p in or_]
        env.observe('lhs', ol)
        res = ct.wellformed(A, ol, 'lhs') + ct.wellformed(A, or_, 'rhs')
        if not ol or not or_:
            return res + [('both-empty', A.bool(not ol and not or_))]
        S, E = refct.domain(A, [sigs[v] for v in vs])
        tau = env.real('tau')
        lo = A.max([S, ol[0][0], or_[0][0]])
        hi = E if mode == 'offline' else A.min([E, ol[-1][0], or_[-1][0]])
        if mode == 'online':
            res.append(('same-cover', A.eq(ol[-1][0], or_[-1][0])))
        env.assume(A.And(A.le(lo, tau), A.le(tau, hi)))
        res.append(('law', A.eq(refct.val(A, ol, tau), refct.val(A, or_, tau))))
        return res
    return body


def obligations(tier, rng):
    quick = tier == 'quick'
    bounds = [(0, 1), (1, 2), (0, 2), (2, 2)] if quick else [(a, b) for b in range(4) for a in range(b + 1)]
    pairs = [((0, 1), (0, 1)), ((1, 2), (0, 1)), ((0, 1), (1, 2)), ((1, 1), (2, 2))] if quick else \
        [((a, b), (c, d)) for (a, b) in [(0, 1), (1, 2), (0, 2), (1, 1)] for (c, d) in [(0, 1), (1, 2), (0, 2), (2, 2)]]
    out = []
    for name, l, r in laws(bounds, pairs):
        for oname, m in OPERANDS.items():
            if quick and oname not in ('var', 'past', 'fut') and not name.startswith(('implies', 'since', 'until', 'dual-O/0,1', 'dual-F/1,2', 'FF/1,2', 'OO/1,2')):
                continue
            L, R = subst(l, m), subst(r, m)
            fut = refsem.has_future(L) or refsem.has_future(R)
            unb = refsem.has(L, refsem.UNBOUNDED_FUTURE) or refsem.has(R, refsem.UNBOUNDED_FUTURE)
            ext = oname in ('var', 'past', 'bool', 'since', 'fut')
            for N in ([1, 3, 5] if quick else [1, 2, 3, 5, 8]):
                out.append(ob('C18', 'dt', 'dt-offline/%s/%s/N=%d' % (name, oname, N), l=L, r=R, N=N, mode='offline', ext=ext))
                if not fut and N > 1:
                    out.append(ob('C18', 'dt', 'dt-online/%s/%s/N=%d' % (name, oname, N), l=L, r=R, N=N, mode='online', ext=ext))
                if not fut and N == 3 and oname in ('var', 'past'):
                    out.append(ob('C18', 'dt', 'dt-online-after-reset/%s/%s/N=%d' % (name, oname, N), l=L, r=R, N=N, mode='online', ext=ext, pre=2))
            if fut and not unb and oname in ('var', 'pred', 'bool', 'fut'):
                h = max(hor(L), hor(R))
                out.append(ob('C18', 'dt', 'dt-pastified/%s/%s/N=%d' % (name, oname, h + 3), l=L, r=R, N=h + 3, mode='pastified', ext=False))
    # dense time
    dops = {'var': {}, 'pred': {'x': ('geq', X, ('const', 0.5))}, 'not': {'x': ('not', X)}, 'once': {'x': ('once', X)}}
    for name, l, r in laws([(0, 1), (1, 2)] if quick else [(0, 1), (1, 2), (0, 2), (1, 1)], pairs[:2] if quick else pairs[:6]):
        if name.startswith(('since-exp', 'until-exp')):
            continue
        for oname, m in dops.items():
            if quick and oname not in ('var', 'not') and not (oname == 'once' and name.endswith('/unb')):
                continue
            L, R = subst(l, m), subst(r, m)
            fut = refsem.has_future(L) or refsem.has_future(R)
            two = len(variables(L) | variables(R)) > 1
            ns = [2, 2] if two else [3 if quick else 4]
            out.append(ob('C18', 'ct', 'ct-offline/%s/%s/n=%s' % (name, oname, ns), l=L, r=R, ns=ns, mode='offline', max_paths=40000, wall=1200))
            if not fut:
                out.append(ob('C18', 'ct', 'ct-online/%s/%s/n=%s' % (name, oname, ns), l=L, r=R, ns=ns, mode='online', max_paths=40000, wall=1200))
    # dense online, several update() calls: nested bounded operators (the inner one re-emits boundary samples at every update boundary),
    # written with past operators and as pastified bounded-future operators
    g6 = [0, 1, 2, 3, 4, 5]
    chunked = []
    for (a, b), (c, d) in ([((0, 1), (1, 1)), ((1, 2), (0, 1))] if quick else [((0, 1), (1, 1)), ((1, 2), (0, 1)), ((0, 1), (0, 1)), ((1, 1), (1, 2)), ((0, 2), (1, 1))]):
        chunked.append(('OO/%d,%d;%d,%d' % (a, b, c, d), ('once_t', ('once_t', X, c, d), a, b), ('once_t', X, a + c, b + d), False))
        chunked.append(('dual-O-nested/%d,%d;%d,%d' % (a, b, c, d), ('not', ('once_t', ('once_t', X, c, d), a, b)), ('historically_t', ('not', ('once_t', X, c, d)), a, b), False))
        chunked.append(('FF/%d,%d;%d,%d' % (a, b, c, d), ('eventually_t', ('eventually_t', X, c, d), a, b), ('eventually_t', X, a + c, b + d), True))
        chunked.append(('dual-F-nested/%d,%d;%d,%d' % (a, b, c, d), ('not', ('eventually_t', ('eventually_t', X, c, d), a, b)), ('always_t', ('not', ('eventually_t', X, c, d)), a, b), True))
    # the same NUMBER with different units in one interval ([1ms,1s] is not punctual); dense time, so the window costs no samples
    R = lambda txt, f: ('raw', txt, f)
    chunked.append(('FF-units/1ms,1s;0,1s', R('eventually[1ms,1s](eventually[0,1s](x))', ('eventually_t', ('eventually_t', X, 0, 1), 0, 1)), R('eventually[1ms,2s](x)', ('eventually_t', X, 0, 2)), True))
    chunked.append(('dual-F-units/2ms,2s', R('not(eventually[2ms,2s](x))', ('not', ('eventually_t', X, 0, 2))), R('always[2ms,2s](not(x))', ('always_t', ('not', X), 0, 2)), True))
    chunked.append(('OO-units/1ms,1s;0,1s', R('once[1ms,1s](once[0,1s](x))', ('once_t', ('once_t', X, 0, 1), 0, 1)), R('once[1ms,2s](x)', ('once_t', X, 0, 2)), False))
    for name, l, r, pst in chunked:
        if '-units/' in name:
            # default unit ms (so that 1 ms and 1 s are exact numbers), samples every 500 ms
            for parts in ([[0, 1, 2], [3, 4, 5]], [[0], [1], [2], [3], [4], [5]]):
                out.append(ob('C18', 'ct', 'ct-online-chunked/%s/%s' % (name, ';'.join(','.join(map(str, q)) for q in parts)), l=l, r=r, ns=[6], mode='online',
                              grid=[0, 500, 1000, 1500, 2000, 3000], parts=parts, pastify=pst, unit='ms', max_paths=60000, wall=1200))
            continue
        for parts in ([[0, 1, 2], [3, 4, 5]], [[0], [1], [2], [3], [4], [5]]) if quick else ([[0, 1, 2], [3, 4, 5]], [[0], [1], [2], [3], [4], [5]], [[0, 1], [2, 3, 4], [5]], [[0, 1, 2, 3], [4], [5]]):
            out.append(ob('C18', 'ct', 'ct-online-chunked/%s/%s' % (name, ';'.join(','.join(map(str, q)) for q in parts)), l=l, r=r, ns=[6], mode='online', grid=g6, parts=parts,
                          pastify=pst, max_paths=60000, wall=1200))
    seen = set()
    return [o for o in out if not (o['oid'] in seen or seen.add(o['oid']))]
