"""C08 — temporal bounds denote physical durations whatever the unit notation."""
from fractions import Fraction

from .. import ct, dt, refct, refsem, symx
from ..core import ob
from ..refsem import T, text, variables, rho, hor, X, Y

INFO = {
    'functions': ['rtamt.semantics.discrete_time_interpreter.DiscreteTimeInterpreter.time_unit_transformer', 'rtamt.semantics.dense_time_interpreter.DenseTimeInterpreter.time_unit_transformer',
                  'rtamt.syntax.ast.parser.stl.parser_visitor.visitInterval / visitIntervalTimeLiteral / visitConstantTimeLiteral', 'rtamt.semantics.interval.interval.Interval',
                  'rtamt.pastifier.stl.pastifier (interval rebuilding)', 'rtamt.spec.abstract_specification (unit, set_sampling_period)'],
    'bounds': {'quick': '6 bounded operators x duration pairs (0,2)(1,2)(1,3) samples x 12 spellings (unit on both/one end, mixed units, default unit via spec.unit, '
                        'bound constants, sampling period given in s/ms/us, decimal literals) x offline/online/pastified-online, N=5; non-multiples of the period; '
                        'dense time: 4 operators x 5 spellings, n=3; one object configured twice (same number in another unit, another number, a configuration that puts a bound off the grid), offline after an evaluate() and online after pastify()',
               'thorough': 'more duration pairs, N=7, nested formulas with mixed units'},
    'outside': 'ps unit (in the lexer but not in the unit table); bounds with unit on begin only',
    'assumptions': ['each spelling is compared with the README semantics of the sample-level formula, hence with every other spelling'],
    'explanation': 'spellings are enumerated; per spelling z3 decides equality with rho_dt of the bound expressed in samples for all sample values',
}

U = {'s': 10 ** 9, 'ms': 10 ** 6, 'us': 10 ** 3, 'ns': 1}


def lit(ns, unit, suffix=True):
    v = Fraction(ns, U[unit])
    if v.denominator == 1:
        s = str(v.numerator)
    else:
        s = repr(float(v))
    return s + (unit if suffix else '')


def spellings(a, b, period_ns):
    """yield (name, interval_text, spec_unit, period, consts) for the sample bounds a,b"""
    A, B = a * period_ns, b * period_ns
    out = []
    per_variants = []
    for u in ('s', 'ms', 'us', 'ns'):
        if period_ns % U[u] == 0:
            per_variants.append((period_ns // U[u], u))
    p0 = per_variants[0]
    small = [u for u in ('s', 'ms', 'us', 'ns') if A % U[u] == 0 and B % U[u] == 0]
    for u in small[:3]:
        out.append(('both-' + u, '[%s,%s]' % (lit(A, u), lit(B, u)), None, p0, ()))
    if len(small) >= 2:
        out.append(('mixed', '[%s,%s]' % (lit(A, small[1]), lit(B, small[0])), None, p0, ()))
        out.append(('mixed2', '[%s:%s]' % (lit(A, small[0]), lit(B, small[1])), None, p0, ()))
    for u in small[:2]:
        out.append(('end-only-' + u, '[%s,%s]' % (lit(A, u, False), lit(B, u)), None, p0, ()))
        out.append(('begin-only-' + u, '[%s,%s]' % (lit(A, u), lit(B, u, False)), None, p0, ()))
        out.append(('begin-only-%s-default-ns' % u, '[%s,%s]' % (lit(A, u), lit(B, u, False)), 'ns', p0, ()))
        out.append(('default-' + u, '[%s,%s]' % (lit(A, u, False), lit(B, u, False)), u, p0, ()))
    for per in per_variants[1:3]:
        u = small[0]
        out.append(('period-%d%s' % per, '[%s,%s]' % (lit(A, u), lit(B, u)), None, per, ()))
        out.append(('period-%d%s-default' % per, '[%s,%s]' % (lit(A, u, False), lit(B, u, False)), u, per, ()))
    u = small[0]
    ca, cb = lit(A, u, False), lit(B, u, False)
    ty = 'int' if '.' not in ca + cb else 'float'
    out.append(('const-default', '[ba,bb]', u, p0, (('ba', ty, ca), ('bb', ty, cb))))
    out.append(('const-unit', '[ba %s,bb %s]' % (u, u), None, p0, (('ba', ty, ca), ('bb', ty, cb))))
    # constants with a FRACTIONAL value in a coarser unit than the bound needs, under several default units
    coarser = {'ms': 's', 'us': 'ms', 'ns': 'us'}.get(u)
    if coarser:
        fa, fb = repr(float(Fraction(A, U[coarser]))), repr(float(Fraction(B, U[coarser])))
        cs = (('ba', 'float', fa), ('bb', 'float', fb))
        out.append(('const-frac-%s' % coarser, '[ba %s,bb %s]' % (coarser, coarser), None, p0, cs))
        out.append(('const-frac-%s-default-ns' % coarser, '[ba %s,bb %s]' % (coarser, coarser), 'ns', p0, cs))
        out.append(('const-frac-%s-default-us' % coarser, '[ba %s,bb %s]' % (coarser, coarser), 'us', p0, cs))
        out.append(('frac-%s-default-ns' % coarser, '[%s%s,%s%s]' % (fa, coarser, fb, coarser), 'ns', p0, ()))
    return out


OPS = {'once_t': '(once%s(x))', 'historically_t': '(historically%s(x))', 'since_t': '((x) since%s (y))',
       'eventually_t': '(eventually%s(x))', 'always_t': '(always%s(x))', 'until_t': '((x) until%s (y))',
       'unless_t': '((x) unless%s (y))'}


def _f(op, a, b):
    return (op, X, Y, a, b) if op in ('since_t', 'until_t', 'unless_t') else (op, X, a, b)


def h_spell(op, a, b, itext, unit, period, consts, mode, N, decl=''):
    f = _f(op, a, b)
    vs = sorted(variables(f))
    h = hor(f)

    def body(env):
        A = env.A
        txt = decl + 'out = ' + OPS[op] % itext          # decl: constants declared in the TEXT ('const float T = 0.3')
        kind = 'offline' if mode == 'offline' else 'combined'      # 'combined-offline': evaluate() of the class that has both monitors
        s = dt.make_spec(kind, txt, vs, pastify=(mode == 'pastified'), unit=unit, period=tuple(period) + (0.1,),
                         consts=[tuple(c) for c in consts])
        w = dt.trace(env, vs, N)
        if mode in ('offline', 'combined-offline'):
            got = [p[1] for p in dt.offline(s, w, N)]
            want = rho(A, f, w, N)
            env.observe('out', got)
            return dt.eq_list(A, 'spelling', got, want)
        got = dt.online(s, w, N)
        env.observe('out', got)
        if mode == 'online':
            return dt.eq_list(A, 'spelling', got, rho(A, f, w, N))
        res = []
        for i in range(h, N):
            pref = {v: w[v][:i + 1] for v in vs}
            res.append(('spelling-delay@%d' % i, A.eq(got[i], rho(A, f, pref, i + 1)[i - h])))
        return res
    return body


def h_pair(txt, f, period, unit, mode, N):
    """one specification holding two bounded operators whose bounds have the SAME numbers but different units (so different durations):
    each must keep its own window; f is the sample-level formula"""
    f = T(f)
    vs = sorted(variables(f))

    def body(env):
        A = env.A
        s = dt.make_spec('offline' if mode == 'offline' else 'online', 'out = ' + txt, vs, unit=unit, period=tuple(period) + (0.1,))
        w = dt.trace(env, vs, N)
        got = [p[1] for p in dt.offline(s, w, N)] if mode == 'offline' else dt.online(s, w, N)
        env.observe('out', got)
        return dt.eq_list(A, 'pair', got, rho(A, f, w, N))
    return body


def h_reconf(txt, f1, p1, f2, p2, mode, N):
    """ONE object whose sampling period is set again after it has been used: the results afterwards are those of the configuration in
    force (f2: the sample-level formula under p2, None = a bound is no longer a multiple of the period and must be rejected)"""
    f1 = T(f1)
    vs = sorted(variables(f1))

    def body(env):
        import rtamt
        A = env.A
        res = []
        w0 = dt.trace(env, vs, N, prefix='first_')
        w = dt.trace(env, vs, N)
        if mode == 'offline':
            s = dt.make_spec('offline~', 'out = ' + txt, vs, period=tuple(p1) + (0.1,))
            res += dt.eq_list(A, 'before', [p[1] for p in dt.offline(s, w0, N)], rho(A, f1, w0, N))
            s.set_sampling_period(*(tuple(p2) + (0.1,)))
            run = lambda: [p[1] for p in dt.offline(s, w, N)]
        else:
            # online: configured, pastify() called (it inspects the bounds), configured again before the first update()
            s = dt.make_spec('online~', 'out = ' + txt, vs, period=tuple(p1) + (0.1,), pastify=True)
            s.set_sampling_period(*(tuple(p2) + (0.1,)))
            run = lambda: dt.online(s, w, N)
        try:
            got = run()
        except rtamt.RTAMTException:
            return res + [('rejected-after-reconfiguration', A.bool(f2 is None))]
        env.observe('out', got)
        if f2 is None:
            return res + [('rejected-after-reconfiguration', A.false)]
        return res + dt.eq_list(A, 'after', got, rho(A, T(f2), w, N))
    return body


class _Part(object):
    """numerator / denominator of a SymFrac: only their relation `num % den` (is the value integral?) is meaningful"""
    def __init__(self, frac, which):
        self.frac, self.which = frac, which

    def __mod__(self, other):
        if isinstance(other, _Part) and other.frac is self.frac and self.which == 'num' and other.which == 'den':
            return _Rem(self.frac)
        raise symx.Inconclusive('SymFrac: numerator/denominator used in a way the proxy does not model')


class _Rem(object):
    """num % den of a SymFrac: 0 iff the value is an integer (the fraction need not be in lowest terms for that)"""
    def __init__(self, frac):
        self.frac = frac

    def _isint(self):
        import z3
        return z3.IsInt(self.frac.s.r)

    def __gt__(self, o):
        import z3
        if o == 0:
            return symx.SymBool(z3.Not(self._isint()))
        raise symx.Inconclusive('SymFrac: remainder compared with a non-zero value')

    def __ne__(self, o):
        return self.__gt__(o)

    def __eq__(self, o):
        if o == 0:
            return symx.SymBool(self._isint())
        raise symx.Inconclusive('SymFrac: remainder compared with a non-zero value')

    __hash__ = None

    def __bool__(self):
        return bool(self.__gt__(0))


class SymFrac(object):
    """stand-in for the fractions.Fraction that holds an interval bound: an ARBITRARY non-negative rational (solver variable).
    Supports what a unit conversion does with a bound: scaling by concrete numbers, comparison, the integrality test
    `numerator % denominator`, and int() - which forks over the values 0..K and leaves the claim beyond K."""
    K = 4

    def __init__(self, s):
        self.s = s

    def _lift(self, o):
        return o.s if isinstance(o, SymFrac) else o

    def __mul__(self, o): return SymFrac(self.s * self._lift(o))
    __rmul__ = __mul__
    def __truediv__(self, o): return SymFrac(self.s / self._lift(o))
    def __add__(self, o): return SymFrac(self.s + self._lift(o))
    __radd__ = __add__
    def __sub__(self, o): return SymFrac(self.s - self._lift(o))
    def __neg__(self): return SymFrac(-self.s)
    def __lt__(self, o): return self.s < self._lift(o)
    def __le__(self, o): return self.s <= self._lift(o)
    def __gt__(self, o): return self.s > self._lift(o)
    def __ge__(self, o): return self.s >= self._lift(o)
    def __eq__(self, o): return self.s == self._lift(o)
    def __ne__(self, o): return self.s != self._lift(o)
    __hash__ = None

    @property
    def numerator(self): return _Part(self, 'num')

    @property
    def denominator(self): return _Part(self, 'den')

    def limit_denominator(self, *a): return self

    def __int__(self):
        # int() truncates towards zero; the value is non-negative here
        import z3
        for k in range(self.K + 1):
            if symx.SymBool(z3.And(self.s.r >= k, self.s.r < k + 1)):
                return k
        raise symx.PathAbort('bound beyond %d samples' % self.K)

    __index__ = __int__
    __trunc__ = __int__
    __floor__ = __int__

    def __round__(self, n=None):
        import z3
        for k in range(self.K + 2):
            if symx.SymBool(z3.And(self.s.r >= k - z3.RealVal('1/2'), self.s.r < k + z3.RealVal('1/2'))):
                return k
        raise symx.PathAbort('bound beyond %d samples' % self.K)

    def __float__(self):
        raise symx.Inconclusive('SymFrac: float() of a symbolic bound')

    def __repr__(self): return 'SymFrac(%r)' % (self.s,)
    __str__ = __repr__


def h_symbound(op, bu, eu, unit, period, mode):
    """The two bounds of ONE bounded operator are arbitrary non-negative rationals B <= E (solver variables; written with units bu/eu,
    '' = none).  z3 decides, for all of them: the monitor either rejects with RTAMTException - and then a bound is NOT an integer multiple
    of the sampling period - or it uses exactly B*u/P and E*u/P samples (nothing is rounded) and returns the robustness of that window."""
    f0 = _f(op, 1, 2)
    vs = sorted(variables(f0))
    P = Fraction(period[0] * U[period[1]])
    du = unit or 's'
    if not bu and not eu:
        ub = ue = U[du]
    else:
        ub = U[bu or eu]
        ue = U[eu or bu]

    def body(env):
        import rtamt
        import z3
        A = env.A
        N = SymFrac.K + 2
        txt = 'out = ' + OPS[op] % ('[0%s,2%s]' % (bu, eu))
        kind = 'offline' if mode == 'offline' else 'online'
        s = dt.make_spec(kind, txt, vs, unit=unit, period=tuple(period) + (0.1,))
        B, E = env.real('B'), env.real('E')
        env.assume(A.And(A.le(0, B), A.le(B * ub, E * ue), A.le(E * ue, SymFrac.K * P)))          # what parse() lets through: 0 <= begin <= end as durations
        if not env.symbolic:
            B, E = Fraction(B).limit_denominator(10 ** 12), Fraction(E).limit_denominator(10 ** 12)
        interp = s.offline_interpreter if mode == 'offline' else s.online_interpreter
        nodes = list(s.ast.specs)
        target = None
        while nodes:
            nd = nodes.pop()
            if hasattr(nd, 'begin_unit'):
                target = nd
            nodes.extend(nd.children)
        target.begin = SymFrac(B) if env.symbolic else B
        target.end = SymFrac(E) if env.symbolic else E
        seen = []
        orig = interp.time_unit_transformer

        def rec(node):
            r = orig(node)
            seen.append(r)
            return r
        interp.time_unit_transformer = rec
        w = dt.trace(env, vs, N)
        bi = A.And(_isint(A, B * ub / P), _isint(A, E * ue / P))
        try:
            got = [p[1] for p in dt.offline(s, w, N)] if mode == 'offline' else dt.online(s, w, N)
        except rtamt.RTAMTException:
            env.observe('rejected', 1)
            return [('rejected-only-if-not-a-multiple', A.Not(bi))]
        except (AttributeError, TypeError, ValueError) as e:
            if 'SymFrac' in str(e) or '_Part' in str(e) or '_Rem' in str(e):
                raise symx.Inconclusive('the bound proxy does not support this use: %s' % e)
            raise
        env.observe('out', got)
        if not seen:
            return [('bounds-converted', A.false)]
        b_s, e_s = seen[0]
        res = [('accepted-only-multiples', bi), ('begin-exact', A.eq(B * ub, b_s * P)), ('end-exact', A.eq(E * ue, e_s * P))]
        if isinstance(b_s, int) and isinstance(e_s, int) and 0 <= b_s <= e_s:
            res += dt.eq_list(A, 'window', got, rho(A, _f(op, b_s, e_s), w, N))
        return res
    return body


def _isint(A, x):
    if A.symbolic:
        import z3
        return z3.IsInt(symx.lift(x).r)
    return Fraction(x).denominator == 1


def h_dense_symbound(op, bu, eu, unit, mode, n):
    """dense time: the two bounds of one bounded operator are ARBITRARY reals 0 <= B <= E (solver variables), written with units bu/eu and
    default unit `unit`; time-stamps are in the default unit.  z3 decides for all bounds, time-stamps, values and instants that the result is
    the dense-time semantics of the window [B*ub/u, E*ue/u] (the unit factors as the doubles rtamt computes; their rounding is outside the claim)"""
    f0 = _f(op, 1, 2)
    vs = sorted(variables(f0))
    du = unit or 's'
    if not bu and not eu:
        ub = ue = U[du]
    else:
        ub = U[bu or eu]
        ue = U[eu or bu]

    def body(env):
        A = env.A
        s = ct.make_spec('combined', 'out = ' + OPS[op] % ('[0%s,2%s]' % (bu, eu)), vs, unit=unit)
        B, E = env.real('B'), env.real('E')
        env.assume(A.And(A.le(0, B), A.le(B * (ub / U[du]), E * (ue / U[du]))))
        nodes = list(s.ast.specs)
        while nodes:
            nd = nodes.pop()
            if hasattr(nd, 'begin_unit'):
                nd.begin, nd.end = B, E
            nodes.extend(nd.children)
        sigs = {v: ct.signal(env, v, n, 'zero') for v in vs}            # time-stamps in the default unit
        args = [[v, [list(p) for p in sigs[v]]] for v in vs]
        out = s.evaluate(*args) if mode == 'offline' else s.update(*args)
        out = [list(p) for p in out]
        env.observe('out', out)
        if not out:
            return [('nonempty', A.bool(mode == 'online'))]
        S, Eend = refct.domain(A, [sigs[v] for v in vs])
        tau = env.real('tau')
        env.assume(A.And(A.le(S, tau), A.le(tau, Eend), A.le(out[0][0], tau)))
        if mode == 'online':
            env.assume(A.le(tau, out[-1][0]))
        a, b = B * (ub / U[du]), E * (ue / U[du])
        if len(vs) == 2:
            want = refct.ref_binary(A, op, sigs['x'], sigs['y'], tau, S, a, b)
        else:
            want = refct.ref_unary(A, op, sigs['x'], tau, a, b)
        return [('dense-symbolic-bounds', A.eq(refct.val(A, out, tau), want))]
    return body


def h_nonmultiple(op, itext, unit, period, mode):
    vs = ['x', 'y'] if op in ('since_t', 'until_t', 'unless_t') else ['x']

    def body(env):
        import rtamt
        A = env.A
        txt = 'out = ' + OPS[op] % itext
        w = dt.trace(env, vs, 3)
        try:
            s = dt.make_spec('offline' if mode == 'offline' else 'combined', txt, vs, pastify=(mode == 'pastified'), unit=unit,
                             period=tuple(period) + (0.1,))
            if mode == 'offline':
                dt.offline(s, w, 3)
            else:
                dt.online(s, w, 1)
        except rtamt.RTAMTException:
            return [('rejected', A.true)]
        return [('rejected', A.false)]
    return body


def h_dense(op, a, b, itext, unit, scale, mode, n):
    """dense time: bounds a,b (in seconds) spelled itext, default unit `unit`, time-stamps given in that unit (scale = units per second)"""
    f = _f(op, a, b)
    vs = sorted(variables(f))

    def body(env):
        A = env.A
        s = ct.make_spec('combined', 'out = ' + OPS[op] % itext, vs, unit=unit)
        sigs = {v: ct.signal(env, v, n, 'zero') for v in vs}            # in seconds
        args = [[v, [[p[0] * scale, p[1]] for p in sigs[v]]] for v in vs]
        out = s.evaluate(*args) if mode == 'offline' else s.update(*args)
        out = [list(p) for p in out]
        env.observe('out', out)
        if not out:
            return [('nonempty', A.false)]
        S, E = refct.domain(A, [sigs[v] for v in vs])
        tau = env.real('tau')
        env.assume(A.And(A.le(S, tau), A.le(tau, E), A.le(out[0][0], tau * scale)))
        if mode == 'online':
            env.assume(A.le(tau * scale, out[-1][0]))
        if len(vs) == 2:
            want = refct.ref_binary(A, op, sigs['x'], sigs['y'], tau, S, a, b)
        else:
            want = refct.ref_unary(A, op, sigs['x'], tau, a, b)
        return [('dense-spelling', A.eq(refct.val(A, out, tau * scale), want))]
    return body


def obligations(tier, rng):
    quick = tier == 'quick'
    out = []
    pairs = [(0, 2), (1, 2), (1, 3)] if quick else [(0, 0), (0, 1), (0, 2), (1, 1), (1, 2), (1, 3), (2, 4)]
    N = 5 if quick else 7
    for period_ns in (10 ** 9, 5 * 10 ** 8) if quick else (10 ** 9, 5 * 10 ** 8, 2 * 10 ** 6):
        for op in OPS:
            for a, b in pairs:
                for name, itext, unit, period, consts in spellings(a, b, period_ns):
                    modes = ['offline']
                    if op in ('once_t', 'historically_t', 'since_t'):
                        modes.append('online')
                    modes.append('pastified')
                    if name.startswith(('both-', 'period-', 'default-')):
                        modes.append('combined-offline')
                    for mode in modes:
                        if quick and mode == 'pastified' and (a, b) != (1, 2):
                            continue
                        out.append(ob('C08', 'spell', 'dt/%s/P=%dns/%s[%d,%d]/%s %s' % (mode, period_ns, op, a, b, name, itext),
                                      op=op, a=a, b=b, itext=itext, unit=unit, period=list(period), consts=[list(c) for c in consts],
                                      mode=mode, N=N, wall=30))      # 0.05 s each on the unchanged tree; a change that blows a window up must not cost 120 s x 2000
    for op in OPS:
        for itext, unit, period in [('[0,1500ms]', None, (1, 's')), ('[500ms,2s]', None, (1, 's')), ('[0,1500]', 'ms', (1, 's')),
                                    ('[0,3]', 's', (2, 's')), ('[0.5,1]', None, (1, 's')), ('[0,750ms]', None, (500, 'ms')),
                                    ('[1,2]', 'ms', (1, 's')),
                                    # both bounds off the grid by the same amount: the window length IS a multiple, and so are the bounds that pastify() derives
                                    ('[0.5,1.5]', None, (1, 's')), ('[500ms,2500ms]', None, (1, 's')), ('[0.25,0.75]', 's', (500, 'ms')),
                                    # remainders below one nanosecond (the finest unit)
                                    ('[0,1.5ns]', None, (1, 'ns')), ('[0,0.0015us]', None, (1, 'ns')), ('[0,1.5]', 'ns', (1, 'ns')), ('[0.5ns,2ns]', None, (1, 'ns')),
                                    ('[0,2.0005us]', None, (1, 'us')), ('[0,2000.5ns]', None, (1, 'us')), ('[0,0.0000000015]', 's', (1, 'ns'))]:
            for mode in ('offline', 'online', 'pastified'):
                if mode == 'online' and op not in ('once_t', 'historically_t', 'since_t'):
                    continue
                out.append(ob('C08', 'nonmultiple', 'nonmultiple/%s/%s%s/unit=%s/P=%s%s' % (mode, op, itext, unit, period[0], period[1]),
                              op=op, itext=itext, unit=unit, period=list(period), mode=mode, validate=0))
    # same numbers, different units, inside ONE specification
    for op, fmt in [('once_t', 'once%s(x)'), ('historically_t', 'historically%s(x)'), ('eventually_t', 'eventually%s(x)'), ('always_t', 'always%s(x)'),
                    ('since_t', '(x) since%s (y)'), ('until_t', '(x) until%s (y)')]:
        for (i1, i2, b1, b2, per, unit) in [('[0:2s]', '[0:2ms]', (0, 2000), (0, 2), (1, 'ms'), None), ('[1:3ms]', '[1:3us]', (1000, 3000), (1, 3), (1, 'us'), 'ms'),
                                            ('[0s:2s]', '[0:2]', (0, 2000), (0, 2), (1, 'ms'), 'ms'), ('[1ms:2ms]', '[1s:2s]', (1, 2), (1000, 2000), (1, 'ms'), None)]:
            mk = (lambda b: (op, X, Y, b[0], b[1])) if op in ('since_t', 'until_t') else (lambda b: (op, X, b[0], b[1]))
            for conn, ctxt in (('sub', '(%s) - (%s)'), ('and', '(%s) and (%s)')):
                f = (conn, mk(b1), mk(b2))
                txt = ctxt % (fmt % i1, fmt % i2)
                for mode in ['offline'] + (['online'] if op in ('once_t', 'historically_t', 'since_t') else []):
                    if quick and conn == 'and' and mode == 'offline':
                        continue
                    out.append(ob('C08', 'pair', 'pair/%s/%s/P=%d%s/unit=%s' % (mode, txt, per[0], per[1], unit), txt=txt, f=f, period=list(per), unit=unit, mode=mode, N=5))
    # dense time: consistent renaming of units
    for op in ('once_t', 'historically_t', 'eventually_t', 'always_t') + (() if quick else ('since_t', 'until_t')):
        for a, b in [(1, 2)] if quick else [(0, 1), (1, 2)]:
            cases = [('s-plain', '[%d,%d]' % (a, b), None, 1), ('s-explicit', '[%ds,%ds]' % (a, b), None, 1),
                     ('ms-explicit', '[%dms,%dms]' % (a * 1000, b * 1000), None, 1),
                     ('ms-default', '[%d,%d]' % (a * 1000, b * 1000), 'ms', 1000),
                     ('ms-default-s-explicit', '[%ds,%ds]' % (a, b), 'ms', 1000),
                     ('mixed', '[%dms,%ds]' % (a * 1000, b), None, 1),
                     ('end-only-s', '[%d,%ds]' % (a, b), None, 1), ('ms-default-end-only-s', '[%d,%ds]' % (a, b), 'ms', 1000),
                     ('ms-default-begin-only-s', '[%ds,%d]' % (a, b), 'ms', 1000),
                     ('us-default-end-only-ms', '[%d,%dms]' % (a * 1000, b * 1000), 'us', 10 ** 6)]
            for name, itext, unit, scale in cases:
                for mode in ('offline', 'online'):
                    if mode == 'online' and op in ('eventually_t', 'always_t', 'until_t'):
                        continue
                    n = 2 if op in ('since_t', 'until_t') else 3
                    out.append(ob('C08', 'dense', 'ct/%s/%s[%d,%d]/%s %s' % (mode, op, a, b, name, itext), op=op, a=a, b=b, itext=itext,
                                  unit=unit, scale=scale, mode=mode, n=n, max_paths=20000, wall=600))
    # constants declared in the text of the specification, with values that have no finite binary expansion (0.1, 0.3, 0.7 s under a 100 ms period)
    for op in (['once_t', 'eventually_t', 'since_t'] if quick else list(OPS)):
        for (va, vb), (a, b) in [(('0.1', '0.3'), (1, 3)), (('0', '0.7'), (0, 7)), (('0.3', '0.3'), (3, 3)), (('0.1', '0.2'), (1, 2))]:
            for ty in ('float', 'double'):
                decl = 'const %s ba = %s\nconst %s bb = %s\n' % (ty, va, ty, vb)
                for itext, unit in [('[ba,bb]', None), ('[ba s,bb s]', 'ms'), ('[ba,bb s]', None)]:
                    modes = ['offline'] + (['online'] if op in ('once_t', 'historically_t', 'since_t') else []) + ['pastified']
                    for mode in modes:
                        if quick and (ty == 'double' or (mode == 'pastified' and (a, b) != (1, 3))):
                            continue
                        out.append(ob('C08', 'spell', 'dt/%s/P=100ms/%s[%d,%d]/text-const %s %s=%s,%s unit=%s' % (mode, op, a, b, itext, ty, va, vb, unit), op=op, a=a, b=b, itext=itext,
                                      unit=unit, period=[100, 'ms'], consts=[], mode=mode, N=b + 3, decl=decl, wall=30))
    # the bounds as SOLVER VARIABLES: every non-negative rational pair B <= E up to 4 sampling periods, every unit combination
    for op in (['once_t', 'eventually_t', 'since_t'] if quick else [o for o in OPS if o != 'unless_t']):       # unless[a,b] is sugar with two intervals: C15's business
        for bu, eu in ([('', ''), ('ms', 's'), ('', 'ms'), ('us', '')] if quick else [(b_, e_) for b_ in ('', 's', 'ms', 'us') for e_ in ('', 's', 'ms', 'us')]):
            for unit, period in ([(None, (1, 's')), (None, (500, 'ms')), ('ms', (2, 'ms'))] if quick else
                                 [(None, (1, 's')), (None, (500, 'ms')), ('ms', (2, 'ms')), ('us', (250, 'us')), ('ns', (3, 'ns')), (None, (1, 'ns'))]):
                for mode in (['offline'] if op in ('eventually_t', 'always_t', 'until_t', 'unless_t') else ['offline', 'online']):
                    out.append(ob('C08', 'symbound', 'symbound/%s/%s[B%s,E%s]/unit=%s/P=%d%s' % (mode, op, bu, eu, unit, period[0], period[1]), op=op, bu=bu, eu=eu,
                                  unit=unit, period=list(period), mode=mode, max_paths=2000, wall=600))
    for op in (['once_t', 'eventually_t'] if quick else ['once_t', 'historically_t', 'eventually_t', 'always_t']):
        for bu, eu in ([('', ''), ('ms', 's'), ('', 'ms'), ('us', '')] if quick else [(b_, e_) for b_ in ('', 's', 'ms', 'us') for e_ in ('', 's', 'ms', 'us')]):
            for unit in ((None, 'ms') if quick else (None, 'ms', 'us')):
                for mode in (['offline'] if op in ('eventually_t', 'always_t') else ['offline', 'online']):
                    out.append(ob('C08', 'dense_symbound', 'ct-symbound/%s/%s[B%s,E%s]/unit=%s' % (mode, op, bu, eu, unit), op=op, bu=bu, eu=eu, unit=unit, mode=mode, n=2,
                                  max_paths=20000, wall=600))
    # one object, configured twice (same number in another unit; another number; a configuration under which a bound is off the grid)
    for txt, mk in [('once[0:2000us](x)', lambda a, b: ('once_t', X, a, b)), ('always[1000us:2ms](x)', lambda a, b: ('always_t', X, a, b)),
                    ('(x) since[0:2ms] (y)', lambda a, b: ('since_t', X, Y, a, b)), ('historically[2ms:4000us](x)', lambda a, b: ('historically_t', X, a, b))]:
        lo = 2 if txt.startswith('hist') else (1 if txt.startswith('always') else 0)
        hi = 4 if txt.startswith('hist') else 2
        cases = [((1, 'ms'), (lo, hi), (1, 'us'), (lo * 1000, hi * 1000)), ((1, 'us'), (lo * 1000, hi * 1000), (1, 'ms'), (lo, hi)),
                 ((1, 'ms'), (lo, hi), (500, 'us'), (lo * 2, hi * 2)), ((500, 'us'), (lo * 2, hi * 2), (2, 'ms'), (lo // 2, hi // 2) if lo % 2 == 0 else None),
                 ((1, 'ms'), (lo, hi), (3, 'ms'), None)]
        for p1, b1, p2, b2 in cases:
            for mode in ('offline', 'online'):
                if mode == 'online' and txt.startswith('always'):
                    continue
                out.append(ob('C08', 'reconf', 'reconf/%s/%s/P=%d%s then %d%s' % (mode, txt, p1[0], p1[1], p2[0], p2[1]), txt=txt, f1=mk(*b1), p1=list(p1),
                              f2=mk(*b2) if b2 else None, p2=list(p2), mode=mode, N=4))
    seen = set()
    res_ = [o for o in out if not (o['oid'] in seen or seen.add(o['oid']))]
    from .. import core as _core
    res_ = res_ + _core.make_twins(res_, [('dt/offline/P=1000000000ns/once_t[1,2]/both-s', 'window'), ('dt/pastified/P=1000000000ns/eventually_t[1,2]/both-ms', 'window')]) + _core.make_forkmode(res_, [])
    return res_
