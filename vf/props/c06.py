"""C06 — interface-aware semantics differ from the standard one only at insensitive predicates."""
import itertools

from .. import ct, dt, refct, refsem, symx
from ..core import ob
from ..refsem import T, text, variables, rho, X, Y, Z

INFO = {
    'functions': ['rtamt.semantics.iastl.discrete_time.offline.ast_visitor (all 4 visitors)', 'rtamt.semantics.iastl.discrete_time.online.predicate_operation / ast_visitor',
                  'rtamt.semantics.iastl.dense_time.offline.ast_visitor', 'rtamt.semantics.iastl.dense_time.online.predicate_operation / ast_visitor',
                  'rtamt.spec.stl.{discrete,dense}_time.specification factories (semantics=...)', 'rtamt.spec.iastl.*.specification factories',
                  'set_var_io_type, rtamt.syntax.node.ltl.variable / predicate (in_vars/out_vars propagation)'],
    'bounds': {'quick': 'io types declared once, or declared and changed again (up to 3 set_var_io_type calls per variable); 5 semantics x 4 monitor kinds; io assignment of x,y in {input,output,default}, z output/input; 6 comparison operators x operand shapes '
                        '{x|c, x|y, x+y|c, x-c|y, c|c}; contexts bare / not / and-with-other-predicate / once[0,1] / always[0,1]; N=3 (discrete), n=2..3 samples (dense); '
                        'the full product is covered by two complete sub-products (semantics x io, operator x shape x context) plus a seeded sample of the rest',
               'thorough': 'full product for discrete time, larger sample for dense time, N=4'},
    'outside': 'predicates over object fields; more than 3 variables',
    'assumptions': ['a variable whose io type was never set counts as output (rtamt default)', 'dense-time contexts use one-variable operands under temporal operators'],
    'explanation': 'the io/semantics configuration is enumerated; for each, z3 decides equality with the README_extensions override for all sample values (and instants)',
}

SEMS = ['standard', 'output_robustness', 'input_robustness', 'output_vacuity', 'input_vacuity']
C1 = ('const', 1.0)


def _sem(name):
    import rtamt
    return {'standard': rtamt.Semantics.STANDARD, 'output_robustness': rtamt.Semantics.OUTPUT_ROBUSTNESS,
            'input_robustness': rtamt.Semantics.INPUT_ROBUSTNESS, 'output_vacuity': rtamt.Semantics.OUTPUT_VACUITY,
            'input_vacuity': rtamt.Semantics.INPUT_VACUITY}[name]


def _io_sets(vs, io):
    inputs = {v for v in vs if io.get(v, '').split('>')[-1] == 'input'}
    return inputs, set(vs) - inputs


def _modular(f, defs):
    """(specification text, names to declare besides the variables, formula for the oracle): with `defs` the text defines the named
    sub-formulas first (several assertions in one text - the parser then SHARES one node object between all references) and the
    oracle sees the inlined formula"""
    f = T(f)
    if not defs:
        return 'out = ' + text(f), [], f
    from .c09 import inline
    dl = [(n, T(d)) for n, d in defs]
    return '\n'.join('%s = %s;' % (n, text(d)) for n, d in dl) + '\nout = ' + text(f) + ';', [n for n, _ in dl], inline(f, dict(dl))


def h_dt(f, N, sem, io, mode, defs=None):
    spec_text, names, f = _modular(f, defs)
    vs = sorted(variables(f) | set(io))
    uf = refsem.has(f, {'sqrt', 'exp', 'ln', 'pow', 'log'})
    h = refsem.hor(f) if mode == 'pastified' else 0

    def body(env):
        A = env.A
        s = dt.make_spec('combined', spec_text, vs + names, io={v: t for v, t in io.items() if t != 'default'},
                         semantics=_sem(sem), pastify=(mode == 'pastified'))
        w = dt.trace(env, vs, N)
        if uf:
            for v in vs:
                for x in w[v]:
                    env.assume(A.And(A.le(2, x), A.le(x, 8)))
        if mode == 'offline':
            got = [p[1] for p in dt.offline(s, w, N)]
        else:
            got = dt.online(s, w, N)
        env.observe('out', got)
        inputs, outputs = _io_sets(vs, io)
        if mode == 'pastified':
            # pastify() must keep the input/output declarations: update i reports the IA robustness at i-h on the prefix
            res = []
            for i in range(h, N):
                pref = {v: w[v][:i + 1] for v in vs}
                res.append(('ia-pastified@%d' % i, A.eq(got[i], rho(A, f, pref, i + 1, refsem.ia_pred(A, sem, inputs, outputs))[i - h])))
            return res
        want = rho(A, f, w, N, refsem.ia_pred(A, sem, inputs, outputs))
        return dt.eq_list(A, 'ia', got, want)
    body.uf = uf
    return body


def h_obj(f, N, sem, mio, mode):
    """object-valued signal: the variables of f are the fields x, y of ONE variable m of a user type (import_module + declare_var);
    the io type is declared for m and holds for every field"""
    f = T(f)
    vs = sorted(variables(f))

    def ren(g):
        g = T(g)
        if g[0] == 'var':
            return ('var', 'm.' + g[1])
        return tuple(ren(c) if isinstance(c, tuple) else c for c in g)

    def body(env):
        import rtamt
        from .. import objmsg
        A = env.A
        cls = rtamt.StlDiscreteTimeSpecification
        s = cls(semantics=_sem(sem))
        s.import_module('vf.objmsg', 'Msg')
        s.declare_var('m', 'Msg')
        if mio != 'default':
            s.set_var_io_type('m', mio)
        s.spec = 'out = ' + text(ren(f))
        s.parse()
        w = dt.trace(env, vs, N)
        col = [objmsg.Msg(**{v: w[v][i] for v in vs}) for i in range(N)]
        if mode == 'offline':
            got = [p[1] for p in s.evaluate({'time': list(range(N)), 'm': col})]
        else:
            got = [s.update(i, [('m', col[i])]) for i in range(N)]
        env.observe('out', got)
        inputs = set(vs) if mio == 'input' else set()
        want = rho(A, f, w, N, refsem.ia_pred(A, sem, inputs, set(vs) - inputs))
        return dt.eq_list(A, 'ia-object', got, want)
    return body


def h_ct(f, ns, sem, io, mode, defs=None):
    spec_text, names, f = _modular(f, defs)
    vs = sorted(variables(f) | set(io))

    def body(env):
        A = env.A
        s = ct.make_spec('combined', spec_text, vs + names, io={v: t for v, t in io.items() if t != 'default'},
                         semantics=_sem(sem))
        sigs = {v: ct.signal(env, v, n, 'zero') for v, n in zip(vs, ns)}
        args = [[v, [list(p) for p in sigs[v]]] for v in vs]
        out = s.evaluate(*args) if mode == 'offline' else s.update(*args)
        out = [list(p) for p in out]
        env.observe('out', out)
        res = ct.wellformed(A, out)
        if not out:
            return res + [('nonempty', A.false)]
        used = sorted(variables(f))
        S, E = refct.domain(A, [sigs[v] for v in used])
        tau = env.real('tau')
        if mode == 'offline':
            res.append(('covers-start', A.le(out[0][0], S)))
            env.assume(A.And(A.le(S, tau), A.le(tau, E)))
        else:
            env.assume(A.And(A.le(out[0][0], tau), A.le(tau, out[-1][0]), A.le(S, tau), A.le(tau, E)))
        inputs, outputs = _io_sets(vs, io)
        want = refct.rho_expr(A, f, sigs, tau, refsem.ia_pred(A, sem, inputs, outputs))
        res.append(('ia', A.eq(refct.val(A, out, tau), want)))
        return res
    return body


def preds():
    shapes = [(X, C1), (X, Y), (('add', X, Y), C1), (('sub', X, C1), Y), (('const', 2.0), C1)]
    return [(k, l, r) for k in refsem.PRED for (l, r) in shapes]


def arith_preds():
    out = []
    # in/out variable sets must propagate through EVERY arithmetic node kind, from either operand
    for k2 in ('add', 'sub', 'mul', 'div'):
        out.append(('geq', (k2, X, Y), C1))
        out.append(('leq', C1, (k2, Y, X)))
        out.append(('geq', (k2, C1, Y), X))
    for k1 in ('abs', 'neg', 'sqrt', 'exp'):
        out.append(('leq', (k1, Y), X))
        out.append(('geq', (k1, ('sub' if k1 in ('abs', 'neg') else 'add', X, Y)), C1))
    out.append(('geq', ('pow', X, Y), C1))
    out.append(('geq', ('pow', Y, X), C1))
    return out


def contexts(p, dense):
    other = ('geq', Z, ('const', 0.0))
    ctx = [('bare', p), ('not', ('not', p)), ('and', ('and', p, other))]
    one_var = len(variables(p)) <= 1
    if not dense or one_var:
        ctx += [('once01', ('once_t', p, 0, 1)), ('always01', ('always_t', p, 0, 1))]
    return ctx


def ios():
    out = []
    for a, b, c in itertools.product(('input', 'output', 'default'), ('input', 'output', 'default'), ('output', 'input')):
        out.append({'x': a, 'y': b, 'z': c})
    return out


def obligations(tier, rng):
    quick = tier == 'quick'
    out = []
    allp = preds()
    allio = ios()
    N = 3 if quick else 4

    def add(p, cname, f, sem, io, mon):
        ioname = ''.join(io[v][0] for v in 'xyz')
        dense = mon.startswith('ct')
        mode = mon.split('-')[1]
        if has_always(f) and mode == 'online':
            return                      # future operator: needs pastify(), which is C03's business
        if dense and (not variables(p) or refsem.has(p, {'div', 'sqrt', 'exp', 'pow'})):
            return                      # constant-only predicate: no input domain in dense time; div/sqrt/exp/pow: discrete only
        if dense:
            vs = sorted(variables(f) | set(io))
            used = variables(f)
            # three samples of the variable of a one-variable predicate: a sample at the threshold needs a predecessor and a successor
            # (until round 11 the third sample was never used, because the declared-but-unused variables counted towards the size limit)
            ns = [(3 if len(used) == 1 and (not quick or cname in ('bare', 'not')) else 2) if v in used else 2 for v in vs]
            out.append(ob('C06', 'ct', '%s/%s/%s/%s/%s' % (mon, sem, ioname, cname, text(p)), f=f, ns=ns, sem=sem, io=io, mode=mode,
                          max_paths=20000, wall=600))
        else:
            out.append(ob('C06', 'dt', '%s/%s/%s/%s/%s' % (mon, sem, ioname, cname, text(p)), f=f, N=N, sem=sem, io=io, mode=mode))

    def has_always(f):
        return refsem.has(f, {'always_t'})

    mons = ['dt-offline', 'dt-online', 'ct-offline', 'ct-online']
    # (1) complete semantics x io product on two predicates, all contexts (discrete) / bare+not+and (dense)
    for p in [('geq', X, C1), ('leq', ('add', X, Y), C1)]:
        for sem in SEMS:
            for io in allio:
                for mon in mons:
                    for cname, f in contexts(p, mon.startswith('ct')):
                        if quick and (cname not in ('bare', 'once01') or (mon.startswith('ct') and p[1] != X)):
                            continue
                        add(p, cname, f, sem, io, mon)
    # (2) complete operator x shape x context product under two configurations per semantics
    cfgs = [{'x': 'input', 'y': 'input', 'z': 'output'}, {'x': 'output', 'y': 'default', 'z': 'input'}]
    for p in allp:
        for sem in SEMS:
            for io in cfgs:
                for mon in mons:
                    for cname, f in contexts(p, mon.startswith('ct')):
                        if quick and (io is cfgs[1] or (mon.startswith('ct') and cname != 'bare') or
                                      (cname in ('not', 'always01') and p[0] not in ('geq', 'eq'))):
                            continue
                        add(p, cname, f, sem, io, mon)
    # (2b) in/out variable propagation through every arithmetic node kind: all io assignments of x,y
    for p in arith_preds():
        for sem in SEMS[1:]:
            for xa, ya in itertools.product(('input', 'output'), repeat=2):
                io = {'x': xa, 'y': ya, 'z': 'input'}
                for mon in (mons[:3] if quick else mons):
                    if quick and mon == 'ct-offline' and sem not in ('output_robustness', 'input_vacuity'):
                        continue
                    add(p, 'bare', p, sem, io, mon)
    # (2f) in/out variable propagation through every Boolean and temporal node kind BELOW a predicate (the grammar has one expression rule)
    below = [(k, X, Y) for k in ('and', 'or', 'implies', 'iff', 'xor', 'since')] + [('since_t', X, Y, 0, 1), ('until_t', X, Y, 0, 1), ('until', X, Y)]
    below += [(k, X) for k in ('not', 'once', 'historically', 'prev', 's_prev', 'rise', 'fall', 'next', 'eventually', 'always')]
    below += [(k, X, 0, 1) for k in ('once_t', 'historically_t', 'eventually_t', 'always_t')]
    for g in below:
        one = len(variables(g)) == 1
        for p in ([('geq', g, Y), ('leq', Y, g)] if one else [('geq', g, C1), ('leq', ('sub', Z, g), C1)]):
            fut = refsem.has_future(p)
            for sem in (SEMS[1:] if not quick else ['output_robustness', 'input_vacuity']):
                for xa, ya in itertools.product(('input', 'output'), repeat=2):
                    io = {'x': xa, 'y': ya, 'z': 'input'}
                    if quick and p[0] == 'leq' and (xa, ya) != ('input', 'output'):
                        continue
                    for mon in (['dt-offline'] if fut else ['dt-offline', 'dt-online']):
                        add(p, 'below', p, sem, io, mon)
    # (2g) object-valued signals: predicates that read the fields of a variable of a user type; the io type is declared for the variable
    for p in [('geq', X, C1), ('leq', ('add', X, Y), C1), ('implies', ('geq', X, ('const', 3.0)), ('geq', Y, ('const', 0.5))), ('once_t', ('lt', X, C1), 0, 1)]:
        for sem in SEMS:
            for mio in ('input', 'output', 'default'):
                for mode in ('offline', 'online'):
                    if quick and sem in ('input_vacuity', 'output_vacuity') and p[0] != 'geq':
                        continue
                    out.append(ob('C06', 'obj', 'dt-%s/%s/object-fields/m=%s/%s' % (mode, sem, mio, text(p)), f=p, N=N, sem=sem, mio=mio, mode=mode))
    # (2d) an io type that is set and then CHANGED before parse(): the last declaration counts
    P1 = ('implies', ('geq', X, ('const', 3.0)), ('geq', Y, ('const', 0.5)))
    for p in [P1, ('geq', ('sub', X, Y), C1), ('once_t', ('leq', Y, C1), 0, 1)]:
        for sem in SEMS:
            for xa, ya in [('input', 'input>output'), ('output>input', 'output'), ('input>output>input', 'output>input>output'), ('output>input', 'input>output'),
                           ('input>redeclare', 'output'), ('input>redeclare', 'input'), ('output>input>redeclare', 'input>redeclare>input')]:
                io = {'x': xa, 'y': ya}
                for mon in mons:
                    if mon == 'ct-online' and sem != 'standard' and p is not P1:
                        continue
                    dense = mon.startswith('ct')
                    name = '%s/%s/changed-io:x=%s,y=%s/%s' % (mon, sem, xa, ya, text(p))
                    if dense:
                        out.append(ob('C06', 'ct', name, f=p, ns=[2, 2], sem=sem, io=io, mode=mon.split('-')[1], max_paths=20000, wall=600))
                    else:
                        out.append(ob('C06', 'dt', name, f=p, N=N, sem=sem, io=io, mode=mon.split('-')[1]))
    # (2c) pastified online monitors: the io declarations must survive pastify()
    IMPL = ('implies', ('geq', X, ('const', 3.0)), ('geq', Y, ('const', 0.5)))
    for f in [('always_t', IMPL, 0, 1), ('eventually_t', ('geq', X, C1), 0, 2), ('and', ('next', ('leq', X, C1)), ('geq', Y, C1)),
              ('once_t', ('geq', ('add', X, Y), C1), 0, 1)]:
        for sem in SEMS:
            for xa, ya in itertools.product(('input', 'output'), repeat=2):
                io = {'x': xa, 'y': ya, 'z': 'output'}
                ioname = ''.join(io[v][0] for v in 'xyz')
                out.append(ob('C06', 'dt', 'dt-pastified/%s/%s/%s' % (sem, ioname, text(f)), f=f, N=refsem.hor(f) + 3, sem=sem, io=io, mode='pastified'))
    # (2e) named sub-formulas: every reference to a name is the SAME node object, so whatever a parent node does to the in/out
    # variable lists of its operand is seen by the other parents too; arithmetic and predicate definitions, both definition orders
    D, S_, T_ = ('var', 'dsub'), ('var', 'psub'), ('var', 'qsub')
    C3 = ('const', 3.0)
    for dname, ddef in [('abs', ('abs', X)), ('var', X), ('sub', ('sub', X, C1)), ('neg', ('neg', X))]:
        for order in (0, 1):
            pd = [('qsub', ('leq', D, Y)), ('psub', ('leq', D, C3))]
            defs = [('dsub', ddef)] + (pd if order == 0 else pd[::-1])
            for mname, main in [('s->t', ('implies', S_, T_)), ('t&s', ('and', T_, S_)), ('once s|t', ('or', ('once_t', S_, 0, 1), T_))]:
                for sem in SEMS[1:]:
                    for xa, ya in itertools.product(('input', 'output'), repeat=2):
                        io = {'x': xa, 'y': ya}
                        for mon in mons:
                            dense = mon.startswith('ct')
                            if dense and mname == 'once s|t':
                                continue
                            if quick and (dname in ('sub', 'neg') and (mname != 's->t' or dense)):
                                continue
                            if quick and dense and (sem != ('output_robustness' if mon == 'ct-offline' else 'input_vacuity') or dname != 'abs' or mname != 's->t'):
                                continue
                            name = '%s/%s/%s%s/shared:d=%s,order%d/%s' % (mon, sem, xa[0], ya[0], dname, order, mname)
                            if dense:
                                out.append(ob('C06', 'ct', name, f=main, ns=[2, 2], sem=sem, io=io, mode=mon.split('-')[1], defs=defs, max_paths=20000, wall=600))
                            else:
                                out.append(ob('C06', 'dt', name, f=main, N=N, sem=sem, io=io, mode=mon.split('-')[1], defs=defs))
    # a predicate definition referenced twice, next to a predicate over the other variable
    for sem in SEMS[1:]:
        for xa, ya in itertools.product(('input', 'output'), repeat=2):
            io = {'x': xa, 'y': ya}
            defs = [('psub', ('geq', X, C1))]
            main = ('and', ('or', S_, ('geq', Y, C1)), ('once_t', S_, 0, 1))
            for mon in mons[:2]:
                out.append(ob('C06', 'dt', '%s/%s/%s%s/shared-pred-twice' % (mon, sem, xa[0], ya[0]), f=main, N=N, sem=sem, io=io, mode=mon.split('-')[1], defs=defs))
    # (3) seeded sample of the remaining product
    for i in range(100 if quick else 3000):
        p = rng.choice(allp)
        io = rng.choice(allio)
        sem = rng.choice(SEMS)
        mon = rng.choice(mons if not quick else mons[:2] + mons)
        cname, f = rng.choice(contexts(p, mon.startswith('ct')))
        add(p, cname, f, sem, io, mon)
    seen = set()
    res_ = [o for o in out if not (o['oid'] in seen or seen.add(o['oid']))]
    from .. import core as _core
    res_ = res_ + _core.make_twins(res_, [('dt-offline/output_robustness/iio/and/', 'minmax'), ('dt-online/input_robustness/ioo/once01/', 'window')]) + _core.make_forkmode(res_, [])
    return res_
