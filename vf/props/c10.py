"""C10 — reset() returns an online monitor to its initial state."""
from .. import ct, dt, refct, refsem, symx
from ..core import ob
from ..refsem import T, text, variables, X, Y, Z
from .c09 import _specs, _mk_dt, _mk_ct, inline

INFO = {
    'functions': ['rtamt.semantics.abstract_online_interpreter.AbstractOnlineInterpreter.reset / AbstractOnlineResetVisitor',
                  'rtamt.semantics.abstract_discrete_time_online_interpreter.AbstractDiscreteTimeOnlineInterpreter.reset',
                  'rtamt.semantics.abstract_dense_time_online_interpreter (reset)', 'every discrete-time and dense-time online Operation.reset',
                  'rtamt.spec.abstract_specification.AbstractOnlineSpecification.reset'],
    'bounds': {'quick': 'every past operator (F1) x bounds, F-dup, sub-specifications, pastified bounded-future formulas; k in 0..3 symbolic pre-reset updates, m=4 post-reset '
                        'updates; symbolic (in/out of tolerance) time-stamps for the sampling counter; dense time: k in 0..2 pre-reset batches, 2 post-reset batches, n=2 samples each; stateful operators below comparison/arithmetic nodes; the notation cases of vf/pool.py (pastified where they have a future operator)',
               'thorough': 'k up to 5, m up to 6, F2 past formulas, dense n=3'},
    'outside': 'longer pre-reset histories (a field that survives reset only after >5 updates)',
    'assumptions': ['the reference is a freshly constructed, parsed (and pastified) specification object fed the same post-reset inputs'],
    'explanation': 'pre-reset history and post-reset inputs are all symbolic; z3 decides that the reset object and a fresh object return equal values and counters',
}


def h_dt(f, k, m, pastify=False, defs=None, style='sub', jitter=False, rounds=1, failing=False):
    f = T(f)
    defs_list = [(n, T(d)) for n, d in (defs or [])]
    full = inline(f, dict(defs_list))
    vs = sorted(set(variables(full)).union(*[variables(inline(d, dict(defs_list))) for _, d in defs_list]))     # also definitions the main formula does not use

    def mk():
        if defs_list:
            return _specs(style, defs_list, f, vs, 'combined', _mk_dt, pastify)[0]
        return dt.make_spec('combined', 'out = ' + text(f), vs, pastify=pastify, f=f)

    def body(env):
        A = env.A
        a, b = mk(), mk()
        pre = dt.trace(env, vs, k, prefix='pre_')
        post = dt.trace(env, vs, m)
        if jitter:
            tpre = [env.real('tp%d' % i) for i in range(k)]
            tpost = [env.real('tq%d' % i) for i in range(m)]
        else:
            tpre, tpost = list(range(k)), list(range(m))
        dt.online(a, pre, k, tpre)
        if failing:
            # an update() that raises part-way (division by exactly 0 after the stateful operators below it have been stepped) also belongs
            # to "every sequence of updates fed before": reset() must still bring the monitor back to its initial state
            try:
                a.update(k, [(v, (0.0 if v == 'y' else 7.0)) for v in vs])
            except ZeroDivisionError:
                pass
            except symx.PathAbort as e:
                # on symbolic operands the executor ends a path at a division by zero; here the zero is the intended, concrete one and
                # the real code raises ZeroDivisionError at this very point
                if 'division by zero' not in str(getattr(e, 'reason', e)):
                    raise
        a.reset()
        for rnd in range(1, rounds):
            # several reset() calls on the same object, each after more (symbolic) updates
            more = dt.trace(env, vs, max(k, 1), prefix='r%d_' % rnd)
            dt.online(a, more, max(k, 1))
            a.reset()
        res = [('counter-zero', A.bool(a.sampling_violation_counter == 0))]
        if defs_list and not jitter:
            # named sub-specifications: their current values after the reset are those of the fresh monitor too (get_value)
            ga, gb = [], []
            for i in range(m):
                ga.append(a.update(tpost[i], [(v, post[v][i]) for v in vs]))
                gb.append(b.update(tpost[i], [(v, post[v][i]) for v in vs]))
                for n, _ in defs_list:
                    res.append(('fresh-get_value-%s@%d' % (n, i), A.eq(a.get_value(n), b.get_value(n))))
        else:
            ga = dt.online(a, post, m, tpost)
            gb = dt.online(b, post, m, tpost)
        env.observe('after-reset', ga)
        res += dt.eq_list(A, 'fresh', ga, gb)
        res.append(('counter-equal', A.bool(a.sampling_violation_counter == b.sampling_violation_counter)))
        return res
    return body


def h_seq(f, seq, pastify=False, defs=None, style='multi'):
    """an arbitrary SEQUENCE of API calls on one online object: u = update with fresh symbolic samples, r = reset(), g = get_value() of every
    name, x = another object of the same formula is created and updated in between, s = set_sampling_period() with the values already in
    force.  After every step the object must be indistinguishable from a fresh one that was fed the updates since the last reset()."""
    f = T(f)
    defs_list = [(n, T(d)) for n, d in (defs or [])]
    full = inline(f, dict(defs_list))
    vs = sorted(set(variables(full)).union(*[variables(inline(d, dict(defs_list))) for _, d in defs_list]))

    def mk():
        if defs_list:
            return _specs(style, defs_list, f, vs, 'combined', _mk_dt, pastify)[0]
        return dt.make_spec('combined', 'out = ' + text(f), vs, pastify=pastify, f=f)

    def body(env):
        A = env.A
        a = mk()
        hist = []
        res = []
        n = 0
        for pos, op in enumerate(seq):
            if op == 'u':
                smp = {v: env.real('%s_%d' % (v, n)) for v in vs}
                n += 1
                hist.append(smp)
                got = a.update(len(hist) - 1, [(v, smp[v]) for v in vs])
                b = mk()
                for i, h in enumerate(hist):
                    want = b.update(i, [(v, h[v]) for v in vs])
                res.append(('step%d-update' % pos, A.eq(got, want)))
                res.append(('step%d-counter' % pos, A.bool(a.sampling_violation_counter == b.sampling_violation_counter)))
                for nm, _ in defs_list:
                    res.append(('step%d-get_value-%s' % (pos, nm), A.eq(a.get_value(nm), b.get_value(nm))))
            elif op == 'r':
                a.reset()
                hist = []
                res.append(('step%d-counter-zero' % pos, A.bool(a.sampling_violation_counter == 0)))
            elif op == 'x':
                c = mk()
                c.update(0, [(v, env.real('other_%s_%d' % (v, pos))) for v in vs])
                c.reset()
            elif op == 's':
                pu = (a.online_interpreter.sampling_period, a.online_interpreter.sampling_period_unit, a.online_interpreter.sampling_tolerance)
                a.set_sampling_period(*pu)
        env.observe('steps', len(seq))
        return res
    return body


def h_seq_ct(f, seq):
    """dense time: a sequence of calls on one online object (u = update with the next sample of every variable, e = update with nothing new,
    r = reset(), x = another object used in between); after every update the returned list equals that of a fresh object fed the same
    batches since the last reset()"""
    f = T(f)
    vs = sorted(variables(f))

    def body(env):
        A = env.A
        a = ct.make_spec('online~', 'out = ' + text(f), vs)
        hist = []
        res = []
        n = 0
        for pos, op in enumerate(seq):
            if op in 'ue':
                if op == 'u':
                    t = len([h for h in hist if h])
                    batch = {v: [[t, env.real('%s_%d' % (v, n))]] for v in vs}
                    n += 1
                else:
                    batch = {v: [] for v in vs}
                hist.append(batch)
                got = a.update(*[[v, [list(p) for p in batch[v]]] for v in vs])
                b = ct.make_spec('online~', 'out = ' + text(f), vs)
                for h in hist:
                    want = b.update(*[[v, [list(p) for p in h[v]]] for v in vs])
                ok = isinstance(got, list) and isinstance(want, list) and len(got) == len(want)
                res.append(('step%d-length' % pos, A.bool(ok)))
                if ok:
                    for i in range(len(got)):
                        res.append(('step%d-sample%d' % (pos, i), A.And(A.eq(got[i][0], want[i][0]), A.eq(got[i][1], want[i][1]))))
            elif op == 'r':
                a.reset()
                hist = []
            elif op == 'x':
                c = ct.make_spec('online~', 'out = ' + text(f), vs)
                c.update(*[[v, [[0, env.real('other_%s_%d' % (v, pos))]]] for v in vs])
        env.observe('steps', len(seq))
        return res
    return body


def h_ct(f, k, m, n, defs=None, rounds=1, txt=None):
    f = T(f)
    defs_list = [(nm, T(d)) for nm, d in (defs or [])]
    full = inline(f, dict(defs_list))
    vs = sorted(variables(full))

    def mk():
        if defs_list:
            return _specs('sub', defs_list, f, vs, 'online', _mk_ct, False)[0]
        return ct.make_spec('online~', 'out = ' + (txt or text(f)), vs)

    def body(env):
        A = env.A
        a, b = mk(), mk()
        # pre-reset: k batches of n samples; post-reset: m batches of n samples, restarting at time 0
        pre = {v: ct.signal(env, 'pre_' + v, k * n, 'zero') for v in vs} if k else {}
        post = {v: ct.signal(env, v, m * n, 'zero') for v in vs}
        for j in range(k):
            a.update(*[[v, [list(p) for p in pre[v][j * n:(j + 1) * n]]] for v in vs])
        a.reset()
        for rnd in range(1, rounds):
            more = {v: ct.signal(env, 'r%d_%s' % (rnd, v), n, 'zero') for v in vs}
            a.update(*[[v, [list(p) for p in more[v]]] for v in vs])
            a.reset()
        oa, ob_ = [], []
        for j in range(m):
            oa += a.update(*[[v, [list(p) for p in post[v][j * n:(j + 1) * n]]] for v in vs])
            ob_ += b.update(*[[v, [list(p) for p in post[v][j * n:(j + 1) * n]]] for v in vs])
        oa, ob_ = [list(p) for p in oa], [list(p) for p in ob_]
        env.observe('after-reset', oa)
        res = [('same-length', A.bool(len(oa) == len(ob_)))]
        if len(oa) != len(ob_):
            return res
        for i in range(len(oa)):
            res.append(('fresh-time@%d' % i, A.eq(oa[i][0], ob_[i][0])))
            res.append(('fresh-value@%d' % i, A.eq(oa[i][1], ob_[i][1])))
        return res
    return body


def obligations(tier, rng):
    from .c02 import PAST_OPS, fdup
    quick = tier == 'quick'
    out = []
    bounds = [(0, 1), (1, 2), (2, 2)] if quick else refsem.BOUNDS_Q
    ks = [0, 1, 3] if quick else [0, 1, 2, 3, 5]
    m = 4 if quick else 6
    f1 = refsem.f1(bounds, ops=set(PAST_OPS))
    for f in f1:
        for k in ks:
            out.append(ob('C10', 'dt', 'dt/F1/%s/k=%d' % (text(f), k), f=f, k=k, m=m))
    for f in f1:
        for rounds in ((2,) if quick else (2, 3)):
            out.append(ob('C10', 'dt', 'dt/F1/%s/k=2/resets=%d' % (text(f), rounds), f=f, k=2, m=m, rounds=rounds))
            out.append(ob('C10', 'dt', 'dt/F1/%s/k=0/resets=%d' % (text(f), rounds), f=f, k=0, m=m, rounds=rounds))
    for f in fdup()[::3 if quick else 1]:
        out.append(ob('C10', 'dt', 'dt/Fdup/%s/k=2' % text(f), f=f, k=2, m=m))
    for f in [('once_t', X, 0, 2), ('since', X, Y), ('prev', X)]:
        for k in (0, 2):
            out.append(ob('C10', 'dt', 'dt/jitter/%s/k=%d' % (text(f), k), f=f, k=k, m=3, jitter=True, max_paths=20000, wall=600))
    P = ('var', 'p')
    for d in [('prev', X), ('once_t', X, 0, 1), ('since', X, Y), ('historically', X)]:
        for mn in [('and', P, Z), ('or', P, ('prev', P)), ('once', P)]:
            for k in (0, 2):
                out.append(ob('C10', 'dt', 'dt/subspec/p=%s/out=%s/k=%d' % (text(d), text(mn), k), f=mn, defs=[['p', d]], k=k, m=m))
    for f in [('eventually_t', X, 0, 2), ('always_t', X, 1, 2), ('until_t', X, Y, 0, 1), ('and', ('next', X), Y),
              ('implies', ('geq', X, Y), ('eventually_t', ('geq', Y, ('const', 0.0)), 0, 2)), ('eventually_t', ('once_t', Y, 0, 1), 0, 1)]:
        for k in ([0, 3] if quick else [0, 1, 3, 5]):
            out.append(ob('C10', 'dt', 'dt/pastified/%s/k=%d' % (text(f), k), f=f, k=k, m=m + 1, pastify=True))
    Pn = ('var', 'p')
    for d in [('eventually_t', X, 0, 1), ('next', X), ('until_t', X, Y, 0, 1), ('once_t', X, 0, 1)]:
        for mn in [('and', Pn, Z), ('or', Pn, ('eventually_t', Z, 0, 2))]:
            for k in (0, 2):
                out.append(ob('C10', 'dt', 'dt/pastified-subspec/p=%s/out=%s/k=%d' % (text(d), text(mn), k), f=mn, defs=[['p', d]], k=k, m=m + 1,
                              pastify=True))
    out.append(ob('C10', 'dt', 'dt/pastified/%s/k=2/resets=2' % text(('eventually_t', X, 0, 2)), f=('eventually_t', X, 0, 2), k=2, m=m + 1, pastify=True, rounds=2))
    out.append(ob('C10', 'dt', 'dt/subspec/p=prev(x)/out=(p) and (z)/k=2/resets=2', f=('and', Pn, Z), defs=[['p', ('prev', X)]], k=2, m=m, rounds=2))
    # stateful operators BELOW comparison and arithmetic nodes (the grammar has one flat expression rule): the reset must reach them
    from .c02 import STATEFUL
    C1 = ('const', 1.0)
    for g in STATEFUL:
        for f in [('leq', ('sub', X, g), C1), ('geq', g, Y), ('historically', ('leq', g, Y)), ('gt', ('add', ('abs', g), Y), C1), ('eq', Y, ('neg', g))]:
            for k in ([2] if quick else [1, 3]):
                out.append(ob('C10', 'dt', 'dt/below-predicate/%s/k=%d' % (text(f), k), f=f, k=k, m=m))
    # seeded random sequences of API calls on one object, judged against a fresh object after every step
    from .c02 import STATEFUL as _ST
    seqf = [('and', g, ('geq', Z, ('const', 0.0))) for g in _ST[:6]] + [('leq', ('sub', X, ('prev', X)), ('const', 1.0)), ('or', ('once_t', X, 0, 1), ('once_t', X, 1, 2))]
    seqp = [('eventually_t', X, 0, 2), ('and', ('next', X), Y), ('until_t', X, Y, 0, 1)]
    for i in range(24 if quick else 200):
        pst = i % 4 == 3
        f = rng.choice(seqp) if pst else rng.choice(seqf)
        L = rng.choice([5, 6, 7])
        seq = ''.join(rng.choice('uuuurrxsg' if i % 2 else 'uuurx') for _ in range(L)) + 'uu'
        if 'r' not in seq:
            seq = seq[:2] + 'r' + seq[3:]
        dfs = [['p', ('prev', X)]] if i % 5 == 4 and not pst else None
        out.append(ob('C10', 'seq', 'dt/api-sequence/%d/%s/%s%s%s' % (i, text(f), seq, '/pastified' if pst else '', '/p=prev(x)' if dfs else ''), f=f, seq=seq, pastify=pst, defs=dfs,
                      max_paths=20000, wall=600))
    seqc = [('once_t', X, 0, 1), ('historically_t', ('geq', X, ('const', 0.0)), 1, 2), ('since', X, Y), ('and', ('once', X), ('geq', Y, ('const', 0.0))), ('geq', X, ('sub', ('const', 2.0), ('const', 1.0))),
            ('or', ('not', X), ('once_t', Y, 0, 1)), ('since_t', X, Y, 0, 1), ('once_t', ('once_t', X, 1, 1), 0, 1)]
    for i in range(12 if quick else 80):
        f = rng.choice(seqc)
        seq = ''.join(rng.choice('uuuerx') for _ in range(rng.choice([4, 5]))) + 'uu'
        if 'r' not in seq:
            seq = seq[:2] + 'r' + seq[3:]
        out.append(ob('C10', 'seq_ct', 'ct/api-sequence/%d/%s/%s' % (i, text(f), seq), f=f, seq=seq, max_paths=40000, wall=900))
    # an update that fails part-way before the reset (division by exactly zero above stateful operators), also as the very first update
    for g in [('prev', X), ('once', X), ('once_t', X, 0, 2), ('since', X, Z), ('historically_t', X, 1, 2)]:
        for f in [('div', g, Y), ('geq', ('div', g, Y), ('const', 1.0))]:
            for k in (0, 2):
                out.append(ob('C10', 'dt', 'dt/failing-update/%s/k=%d' % (text(f), k), f=f, k=k, m=m, failing=True))
    # assertions that the last assertion does NOT refer to: they are monitored too, and reset with everything else (seen through get_value)
    for d in [('prev', X), ('once_t', X, 0, 2), ('since', X, Y), ('historically', X), ('rise', X)]:
        for mn in [('geq', Z, ('const', 0.0)), ('once', Z)]:
            for k in (1, 3):
                out.append(ob('C10', 'dt', 'dt/unreferenced-subspec/p=%s/out=%s/k=%d' % (text(d), text(mn), k), f=mn, defs=[['p', d]], k=k, m=m, style='multi'))
                out.append(ob('C10', 'dt', 'dt/unreferenced-subspec/p=%s/out=%s/k=%d/add_sub_spec' % (text(d), text(mn), k), f=mn, defs=[['p', d]], k=k, m=m, style='sub'))
    from .. import pool
    for i, g in enumerate(pool.ALL):
        fut = refsem.has_future(g)
        for k, rounds in ([(3, 1 + i % 2)] if quick else [(0, 1), (3, 1), (2, 2)]):
            out.append(ob('C10', 'dt', 'dt/pool/%s/P=%s/unit=%s/k=%d/resets=%d' % (g[1], g[3] or '-', g[4] or '-', k, rounds), f=g, k=k, m=refsem.hor(g) + 4 if fut else 5,
                          pastify=fut, rounds=rounds))
    if not quick:
        nodiv = [k for k in PAST_OPS if k != 'div']
        f2 = refsem.depth2(nodiv, nodiv, [(0, 1), (1, 2)])
        for f in rng.sample(f2, 300):
            out.append(ob('C10', 'dt', 'dt/F2/%s/k=3' % text(f), f=f, k=3, m=5))
    # dense time
    dn = 2 if quick else 3
    dfs = [('not', X), ('once', X), ('historically', X), ('once_t', X, 0, 1), ('historically_t', X, 1, 2), ('and', X, Y), ('geq', X, Y),
           ('since', X, Y), ('since_t', X, Y, 0, 1), ('add', X, Y), ('once', ('not', X))]
    for f in dfs:
        two = len(variables(f)) > 1
        timed = refsem.has(f, {'once_t', 'historically_t', 'since_t'})
        for k in ([0, 1] if quick or timed else [0, 1, 2]):
            out.append(ob('C10', 'ct', 'ct/%s/k=%d' % (text(f), k), f=f, k=k, m=1 if (two or (timed and not quick)) else 2,
                          n=dn if not two else 2, max_paths=60000, wall=900))
    for f in [('once', X), ('once_t', X, 0, 1), ('since', X, Y)]:
        two = len(variables(f)) > 1
        out.append(ob('C10', 'ct', 'ct/%s/k=1/resets=2' % text(f), f=f, k=1, m=1, n=2, rounds=2, max_paths=30000, wall=900))
    for f, txt in [(('once_t', X, 0, 2), 'once[0:2000ms](x)'), (('historically_t', X, 1, 2), 'historically[1000ms:2s](x)'),
                   (('since_t', X, Y, 0, 1), '(x) since[0:1000ms] (y)')]:
        for k in (0, 1):
            out.append(ob('C10', 'ct', 'ct-units/%s/k=%d' % (txt, k), f=f, txt=txt, k=k, m=1, n=2, rounds=1 + k, max_paths=30000, wall=900))
    out.append(ob('C10', 'ct', 'ct/subspec/p=once(x)/out=not(p)/k=1', f=('not', P), defs=[['p', ('once', X)]], k=1, m=2, n=2))
    seen = set()
    return [o for o in out if not (o['oid'] in seen or seen.add(o['oid']))]
