"""C17 — well-formed use never crashes; unsupported constructs are rejected cleanly."""
import itertools

from .. import ct, dt, refct, refsem, symx
from ..core import ob
from ..refsem import T, text, variables, X, Y, Z

INFO = {
    'functions': ['parse(), pastify(), evaluate(), update(), reset() of the four specification kinds', 'set_variable_to_ast_from_dataset of the four interpreters',
                  'every visit* that raises for an unsupported construct (discrete online, dense offline, dense online visitors, pastifiers)'],
    'bounds': {'quick': 'supported: every operator x monitor kind on 1-, 2- and 4-sample traces with symbolic values, with a declared-but-unused and a supplied-but-undeclared '
                        'variable and every order of the inputs; timed dense operators with windows over 3-4 sampling steps on 5-sample concrete grids; unsupported: operator x monitor-kind table (unbounded future online, prev/next/s_prev/s_next/rise/fall in dense time, '
                        'bounded future and bounded until in the dense online monitor; the same after pastify(), incl. until[0,0]), bare and nested under another operator; several online objects in one process with interleaved calls, a reset or a rejected object in between; the output declared as a field of a user object (out.x = ...) over three updates; the four IA-STL semantics x io assignment x comparison operator x monitor kind on three samples',
               'thorough': 'longer traces, unsupported constructs nested at depth 2, bounds variety'},
    'outside': 'malformed data (wrong shapes, NaN, decreasing time-stamps); object-typed input variables (C06, C20 use them); an object-typed OUTPUT with a field is covered (out-field)',
    'assumptions': ['"no later than the first evaluation": the RTAMTException must come from parse(), pastify() or the first evaluate()/update()'],
    'explanation': 'data is symbolic, so "returns normally" holds on every path for all values; rejections are data-independent (single path), which the explorer confirms',
}


def h_supported(f, N, kind, extra='none', order=0, grid=None):
    f = T(f)
    vs = sorted(variables(f))

    def body(env):
        A = env.A
        decl = vs + (['unused'] if extra in ('unused', 'both') else [])
        supplied = decl + (['ghost'] if extra in ('ghost', 'both') else [])
        perm = list(itertools.permutations(supplied))[order % max(1, len(list(itertools.permutations(supplied))))]
        if kind.startswith('dt'):
            s = dt.make_spec({'dt-offline': 'offline', 'dt-online': 'online', 'dt-combined-off': 'combined', 'dt-combined-on': 'combined',
                              'dt-pastified': 'combined'}[kind], 'out = ' + text(f), decl, pastify=(kind == 'dt-pastified'))
            w = dt.trace(env, supplied, N)
            if kind in ('dt-offline', 'dt-combined-off'):
                d = {'time': list(range(N))}
                for v in perm:
                    d[v] = list(w[v])
                if order % 2:
                    d = dict(reversed(list(d.items())))
                out = s.evaluate(d)
                ok = isinstance(out, list) and len(out) == N
            else:
                out = [s.update(i, [(v, w[v][i]) for v in perm]) for i in range(N)]
                ok = len(out) == N
            env.observe('out', [p[1] for p in out] if kind in ('dt-offline', 'dt-combined-off') else out)
            return [('returns-values', A.bool(ok))]
        s = ct.make_spec({'ct-offline': 'offline', 'ct-online': 'online', 'ct-combined-off': 'combined', 'ct-combined-on': 'combined'}[kind],
                         'out = ' + text(f), decl)
        sigs = {v: ct.signal(env, v, N, 'zero', grid=grid) for v in supplied}
        args = [[v, [list(p) for p in sigs[v]]] for v in perm]
        if kind in ('ct-offline', 'ct-combined-off'):
            out = s.evaluate(*args)
        else:
            out = s.update(*args)
            out2 = s.update(*[[v, []] for v in perm])
        env.observe('out', [list(p) for p in out])
        return ct.wellformed(A, [list(p) for p in out])
    return body


def h_outfield(f, kind, K=3):
    """the output is a FIELD of a variable of a user type (`out.x = ...`, README: ROS messages): every evaluate()/update() returns normally,
    the values are those of the plain formula and the field of the user's object carries the last result"""
    f = T(f)
    vs = sorted(variables(f))

    def body(env):
        A = env.A
        from .. import objmsg
        fam, k = kind.split('-')
        s = (dt if fam == 'dt' else ct).KINDS[{'offline': 'offline', 'online': 'online', 'combinedoff': 'combined', 'combinedon': 'combined'}[k]]()
        s.import_module('vf.objmsg', 'Msg')
        for v in vs:
            s.declare_var(v, 'float')
        s.declare_var('out', 'Msg')
        s.spec = 'out.x = ' + text(f)
        s.parse()
        res = []
        if fam == 'dt':
            w = dt.trace(env, vs, K)
            exp = refsem.rho(A, f, w, K)
            if k in ('offline', 'combinedoff'):
                d = {'time': list(range(K))}
                d.update({v: list(w[v]) for v in vs})
                got = [p_[1] for p_ in s.evaluate(d)]
            else:
                got = [s.update(i, [(v, w[v][i]) for v in vs]) for i in range(K)]
                res.append(('field-carries-last', A.eq(s.ast.var_object_dict['out'].x, got[-1])))
            env.observe('out', got)
            return res + dt.eq_list(A, 'value', got, exp)
        sigs = {v: ct.signal(env, v, K + 1, 'zero', grid=list(range(K + 1))) for v in vs}
        if k in ('offline', 'combinedoff'):
            out = s.evaluate(*[[v, [list(p_) for p_ in sigs[v]]] for v in vs])
            env.observe('out', [list(p_) for p_ in out])
            return ct.wellformed(A, [list(p_) for p_ in out])
        outs = []
        for i in range(K):                                   # one segment per update
            outs.append(s.update(*[[v, [list(sigs[v][i]), list(sigs[v][i + 1])] if i == 0 else [list(sigs[v][i + 1])]] for v in vs]))
        env.observe('out', [[list(p_) for p_ in o] for o in outs])
        for j, o in enumerate(outs):
            res += ct.wellformed(A, [list(p_) for p_ in o], label='out%d' % j)
        return res
    return body


def h_ia(f, kind, sem, io, N=3):
    """interface-aware semantics (README_extensions): every evaluate()/update() of a supported formula returns normally under each of the
    four IA-STL semantics and each io assignment of its variables"""
    f = T(f)
    vs = sorted(variables(f))

    def body(env):
        A = env.A
        from .c06 import _sem
        iod = {v: t for v, t in zip(vs, io) if t != 'default'}
        fam, k = kind.split('-')
        if fam == 'dt':
            s = dt.make_spec('combined', 'out = ' + text(f), vs, io=iod, semantics=_sem(sem))
            w = dt.trace(env, vs, N)
            if k == 'offline':
                d = {'time': list(range(N))}
                d.update({v: list(w[v]) for v in vs})
                out = [p_[1] for p_ in s.evaluate(d)]
            else:
                out = [s.update(i, [(v, w[v][i]) for v in vs]) for i in range(N)]
            env.observe('out', out)
            return [('returns-values', A.bool(len(out) == N))]
        s = ct.make_spec('combined', 'out = ' + text(f), vs, io=iod, semantics=_sem(sem))
        sigs = {v: ct.signal(env, v, N, 'zero', grid=list(range(N))) for v in vs}
        args = [[v, [list(p_) for p_ in sigs[v]]] for v in vs]
        out = s.evaluate(*args) if k == 'offline' else s.update(*args)
        env.observe('out', [list(p_) for p_ in out])
        return ct.wellformed(A, [list(p_) for p_ in out])
    return body


def h_rejected(f, kind):
    f = T(f)
    vs = sorted(variables(f))

    def body(env):
        import rtamt
        A = env.A
        stage = 'construct'
        try:
            if kind.startswith('dt'):
                s = dt.make_spec('online' if kind != 'dt-combined' else 'combined', 'out = ' + text(f), vs, pastify=(kind == 'dt-pastified'))
                stage = 'update'
                w = dt.trace(env, vs, 2)
                r = s.update(0, [(v, w[v][0]) for v in vs])
            else:
                s = ct.make_spec({'ct-offline': 'offline', 'ct-online': 'online', 'ct-combined-off': 'combined', 'ct-combined-on': 'combined',
                                  'ct-online-pastified': 'online', 'ct-combined-pastified': 'combined', 'ct-online-pastified2': 'online', 'ct-combined-pastified2': 'combined'}[kind],
                                 'out = ' + text(f), vs, pastify=('twice' if kind.endswith('pastified2') else kind.endswith('pastified')))
                stage = 'evaluate'
                sigs = {v: ct.signal(env, v, 2, 'zero') for v in vs}
                args = [[v, [list(p) for p in sigs[v]]] for v in vs]
                r = s.evaluate(*args) if kind in ('ct-offline', 'ct-combined-off') else s.update(*args)
        except rtamt.RTAMTException:
            return [('rejected-with-RTAMTException', A.true)]
        env.observe('value', 0)
        return [('rejected-with-RTAMTException', A.false)]
    return body


def h_reject_then(f, kind, then):
    """an unsupported (un-pastified) formula is rejected by the first update(); the object must stay usable:
    then='again' - every further update() is rejected with RTAMTException again (never another exception, never a value);
    then='pastify' - after pastify() (the documented remedy) update() returns normally"""
    f = T(f)
    vs = sorted(variables(f))

    def body(env):
        import rtamt
        A = env.A
        dense = kind.startswith('ct')
        s = (ct.make_spec('combined' if 'combined' in kind else 'online', 'out = ' + text(f), vs) if dense
             else dt.make_spec('combined' if 'combined' in kind else 'online', 'out = ' + text(f), vs))
        if dense:
            sigs = {v: ct.signal(env, v, 2, 'zero') for v in vs}
            call = lambda: s.update(*[[v, [list(p) for p in sigs[v]]] for v in vs])
        else:
            w = dt.trace(env, vs, 4)
            step = [0]

            def call():
                i = step[0]
                step[0] += 1
                return s.update(i, [(v, w[v][i]) for v in vs])
        res = []
        try:
            call()
            return [('first-update-rejected', A.false)]
        except rtamt.RTAMTException:
            res.append(('first-update-rejected', A.true))
        if then == 'again':
            for k in (2, 3):
                try:
                    call()
                    res.append(('update-%d-rejected' % k, A.false))
                except rtamt.RTAMTException:
                    res.append(('update-%d-rejected' % k, A.true))
        else:
            s.pastify()
            out = call()
            env.observe('value', 0)
            res.append(('update-after-pastify-returns', A.bool(out is not None)))
        return res
    return body


def h_several(fa, fb, kind, order, bad=None):
    """several specification objects alive in one process, their calls interleaved (order: a string over 'a','b'; 'B' = reset of b;
    bad: an unsupported formula whose object is created and rejected in between): every call on a supported object returns normally"""
    fa, fb = T(fa), T(fb)

    def body(env):
        import rtamt
        A = env.A
        dense = kind.startswith('ct')
        objs, data, step = {}, {}, {'a': 0, 'b': 0}
        for c, f in (('a', fa), ('b', fb)):
            vs = sorted(variables(f))
            if dense:
                objs[c] = ct.make_spec('online' if kind == 'ct-online' else 'combined', 'out = ' + text(f), vs)
                data[c] = {v: ct.signal(env, '%s_%s' % (c, v), 4, 'zero', grid=[0, 1, 2, 3]) for v in vs}
            else:
                objs[c] = dt.make_spec('online' if kind == 'dt-online' else 'combined', 'out = ' + text(f), vs)
                data[c] = dt.trace(env, vs, 4, prefix=c + '_')
        n = 0
        for ch in order:
            if ch == 'X':
                g = T(bad)
                try:
                    sb = (ct if dense else dt).make_spec('online', 'out = ' + text(g), sorted(variables(g)))
                    if dense:
                        sb.update(*[[v, [[0, 1.0]]] for v in sorted(variables(g))])
                    else:
                        sb.update(0, [(v, 1.0) for v in sorted(variables(g))])
                except rtamt.RTAMTException:
                    pass
                continue
            c = ch.lower()
            if ch.isupper():
                objs[c].reset()
                step[c] = 0
                continue
            i = step[c]
            step[c] += 1
            vs = sorted(data[c])
            if dense:
                r = objs[c].update(*[[v, [list(data[c][v][i])]] for v in vs])
                ok = isinstance(r, list)
            else:
                r = objs[c].update(i, [(v, data[c][v][i]) for v in vs])
                ok = r is not None
            n += 1
            if not ok:
                return [('returns-values', A.false)]
        env.observe('calls', n)
        return [('returns-values', A.true)]
    return body


def h_poolct(idx):
    """a case of the shared dense-time online pool (vf/poolct.py)"""
    def body(env):
        from .. import poolct
        outs, res = ct.run_pool_case(env, poolct.CASES[idx], check=('shape',))
        env.observe('updates', len(outs))
        return res
    return body


def obligations(tier, rng):
    quick = tier == 'quick'
    out = []
    from .. import poolct as _pc
    for _i, _c in enumerate(_pc.CASES):
        out.append(ob('C17', 'poolct', 'pool-ct-shape/%d/%s/%s' % (_i, text(_c[0]), ';'.join(','.join(map(str, q)) or '-' for q in _c[2])), idx=_i, max_paths=60000, wall=900))
    bq = [(0, 1), (1, 2), (2, 3)]
    dt_all = refsem.f1(bq, arith=True)
    for f in dt_all:
        if f[0] in ('sqrt', 'ln', 'log', 'pow', 'exp', 'div'):
            continue            # arithmetic domain errors are outside the claim
        fut = refsem.has_future(f)
        unb = refsem.has(f, refsem.UNBOUNDED_FUTURE)
        kinds = ['dt-offline', 'dt-combined-off'] + ([] if fut else ['dt-online', 'dt-combined-on']) + ([] if unb else ['dt-pastified'])
        for kind in kinds:
            for N in ([1, 2, 4] if quick else [1, 2, 3, 4, 6]):
                for extra in (['none', 'both'] if N == 2 else ['none']):
                    out.append(ob('C17', 'supported', 'ok/%s/%s/N=%d/%s' % (kind, text(f), N, extra), f=f, N=N, kind=kind, extra=extra, order=N))
    ct_un = ['not', 'neg', 'abs', 'once', 'historically', 'eventually', 'always']
    ct_bin = ['and', 'or', 'implies', 'iff', 'xor', 'add', 'sub', 'mul', 'leq', 'lt', 'geq', 'gt', 'eq', 'neq', 'since', 'until']
    ct_all = [(k, X) for k in ct_un] + [(k, X, a, b) for k in refsem.UNT for a, b in bq[:2]] + [(k, X, Y) for k in ct_bin] + \
             [(k, X, Y, a, b) for k in ('since_t', 'until_t') for a, b in bq[:2]]
    for f in ct_all:
        fut = refsem.has_future(f)
        for kind in ['ct-offline', 'ct-combined-off'] + ([] if fut else ['ct-online', 'ct-combined-on']):
            for N in ([1, 2] if quick or len(variables(f)) > 1 else [1, 2, 3]):
                for extra in (['none', 'both'] if N == 2 and len(variables(f)) == 1 else ['none']):
                    out.append(ob('C17', 'supported', 'ok/%s/%s/N=%d/%s' % (kind, text(f), N, extra), f=f, N=N, kind=kind, extra=extra, order=N + 1,
                                  max_paths=30000, wall=900))
    # windows spanning several sampling steps: 5 samples on concrete regular/irregular grids, values symbolic
    for g in ([[0, 1, 2, 3, 4], [0, 0.5, 2, 2.5, 4.5]] if quick else [[0, 1, 2, 3, 4], [0, 0.5, 2, 2.5, 4.5], [0, 1, 2, 3, 4, 5], [0, 2, 3, 3.5, 4, 7]]):
        for k in refsem.UNT:
            for a, b in [(0, 3), (1, 4), (2, 3)]:
                f = (k, X, a, b)
                for kind in ['ct-offline'] + ([] if refsem.has_future(f) else ['ct-online']) + ([] if quick else ['ct-combined-off']):
                    out.append(ob('C17', 'supported', 'wide/%s/%s/grid=%s' % (kind, text(f), ','.join(map(str, g))), f=f, N=len(g), kind=kind, grid=g,
                                  max_paths=30000, wall=900))
    for k in ('since_t', 'until_t'):
        for a, b in ([(0, 3)] if quick else [(0, 3), (1, 3)]):
            f = (k, X, Y, a, b)
            for kind in ['ct-offline'] + ([] if k == 'until_t' else ['ct-online']):
                out.append(ob('C17', 'supported', 'wide/%s/%s/grid=0,1,2,3' % (kind, text(f)), f=f, N=4, kind=kind, grid=[0, 1, 2, 3], max_paths=30000, wall=900))
    # several objects in one process, calls interleaved; an object that is rejected (or reset) in between
    G1 = ('geq', X, ('const', 1.0))
    pairs2 = [(('once_t', G1, 0, 1), ('historically', ('geq', Y, ('const', 0.0)))), (G1, G1), (('since', X, Y), ('once', X)), (('and', G1, ('once', G1)), ('not', G1))]
    for fa, fb in pairs2:
        for kind in ('dt-online', 'dt-combined', 'ct-online', 'ct-combined'):
            for order in (['aba', 'abBa', 'aXa'] if quick else ['aba', 'abab', 'abBa', 'aXa', 'abXab', 'aBab']):
                out.append(ob('C17', 'several', 'several/%s/%s|%s/%s' % (kind, text(fa), text(fb), order), fa=fa, fb=fb, kind=kind, order=order, bad=('always', X)))
    # the output is a field of a user object (`out.x = ...`): every call returns, also the second and third update()
    for f in [G1, ('once_t', G1, 0, 1), ('and', G1, ('historically', ('leq', Y, ('const', 2.0)))), ('sub', X, Y)]:
        for kind in ('dt-offline', 'dt-online', 'dt-combinedon', 'ct-offline', 'ct-online', 'ct-combinedon', 'ct-combinedoff'):
            out.append(ob('C17', 'outfield', 'out-field/%s/%s' % (kind, text(f)), f=f, kind=kind, K=3, max_paths=30000, wall=900))
    # interface-aware semantics: comparison operators x io assignment x semantics x monitor kind, three samples with arbitrary values
    C1 = ('const', 1.0)
    for sem in ('output_robustness', 'input_robustness', 'output_vacuity', 'input_vacuity'):
        for op in (['eq', 'neq', 'geq'] if quick else ['eq', 'neq', 'geq', 'leq', 'lt', 'gt']):
            for wrap in (lambda g: g, lambda g: ('always', g), lambda g: ('once', ('not', g))):
                for io in (['input'], ['output'], ['default']):
                    f = wrap((op, X, C1))
                    for kind in ('ct-offline', 'ct-online', 'dt-offline', 'dt-online'):
                        if kind.endswith('online') and refsem.has_future(f):
                            continue
                        out.append(ob('C17', 'ia', 'ia/%s/%s/x=%s/%s' % (kind, sem, io[0], text(f)), f=f, kind=kind, sem=sem, io=io, N=3, max_paths=30000, wall=900))
                f = wrap((op, X, Y))
                for io in (['input', 'output'], ['output', 'input']):
                    out.append(ob('C17', 'ia', 'ia/ct-offline/%s/x=%s,y=%s/%s' % (sem, io[0], io[1], text(f)), f=f, kind='ct-offline', sem=sem, io=io, N=3, max_paths=30000, wall=900))
    # input orders
    for order in range(6):
        out.append(ob('C17', 'supported', 'order/dt-online/%d' % order, f=('since', ('and', X, Y), Z), N=3, kind='dt-online', extra='none', order=order))
        out.append(ob('C17', 'supported', 'order/dt-offline/%d' % order, f=('until', ('and', X, Y), Z), N=3, kind='dt-offline', extra='none', order=order))
        out.append(ob('C17', 'supported', 'order/ct-offline/%d' % order, f=('and', X, ('or', Y, Z)), N=2, kind='ct-offline', extra='none', order=order,
                      max_paths=30000, wall=900))
    # unsupported table
    wraps = [lambda g: g, lambda g: ('not', g), lambda g: ('and', g, Y), lambda g: ('once', g)]
    wraps_ct = wraps + [lambda g: ('since', Y, g)]
    wraps_pred = [lambda g: ('gt', g, ('const', 1.0)), lambda g: ('geq', ('add', ('abs', g), Y), ('const', 2.0)), lambda g: ('once_t', ('leq', Y, g), 0, 1)]       # the unsupported operator BELOW a comparison / arithmetic
    unb = [('eventually', X), ('always', X), ('until', X, Y), ('unless', X, Y)]
    for g in unb:
        for i, wfn in enumerate(wraps if not quick else wraps[:3]):
            f = wfn(g)
            for kind in ('dt-online', 'dt-combined', 'dt-pastified'):
                out.append(ob('C17', 'rejected', 'reject/%s/%s' % (kind, text(f)), f=f, kind=kind, validate=0))
    bounded_fut = [('eventually_t', X, 0, 1), ('always_t', X, 1, 2), ('until_t', X, Y, 0, 1), ('next', X), ('s_next', X), ('unless_t', X, Y, 0, 1)]
    for g in bounded_fut:
        for wfn in wraps[:2]:
            f = wfn(g)
            for kind in ('dt-online', 'dt-combined'):
                out.append(ob('C17', 'rejected', 'reject/%s/%s' % (kind, text(f)), f=f, kind=kind, validate=0))
    for g in [('always_t', ('geq', X, ('const', 1.0)), 0, 2), ('eventually_t', X, 0, 1), ('and', ('next', X), Y), ('until_t', X, Y, 0, 1)]:
        for kind in ('dt-online', 'dt-combined'):
            out.append(ob('C17', 'reject_then', 'reject-then-pastify/%s/%s' % (kind, text(g)), f=g, kind=kind, then='pastify', validate=0))
            out.append(ob('C17', 'reject_then', 'reject-again/%s/%s' % (kind, text(g)), f=g, kind=kind, then='again', validate=0))
    for g in [('always', ('geq', X, ('const', 0.0))), ('and', ('geq', X, ('const', 1.0)), ('eventually', Y))]:
        for kind in ('dt-online', 'ct-online', 'ct-combined'):
            out.append(ob('C17', 'reject_then', 'reject-again/%s/%s' % (kind, text(g)), f=g, kind=kind, then='again', validate=0))
    for g in [('always_t', X, 0, 1), ('eventually_t', ('geq', X, ('const', 1.0)), 0, 1)]:
        out.append(ob('C17', 'reject_then', 'reject-then-pastify/ct-online/%s' % text(g), f=g, kind='ct-online', then='pastify', validate=0))
    dense_bad = [('prev', X), ('next', X), ('s_prev', X), ('s_next', X), ('rise', X), ('fall', X)]
    for g in dense_bad:
        for wfn in (wraps_ct + wraps_pred if not quick else wraps_ct[:3] + wraps_pred[:1]):
            f = wfn(g)
            for kind in ('ct-offline', 'ct-online', 'ct-combined-off', 'ct-combined-on'):
                out.append(ob('C17', 'rejected', 'reject/%s/%s' % (kind, text(f)), f=f, kind=kind, validate=0))
    # pastify() must not turn an unsupported construct into a supported one: discrete-only operators, unbounded future and bounded
    # until stay rejected by the dense-time online monitor after pastify()
    past_bad = [('next', X), ('s_next', X), ('prev', X), ('s_prev', X), ('rise', X), ('fall', X), ('until_t', X, Y, 0, 1), ('until_t', X, Y, 0, 0), ('until_t', X, Y, 1, 1),
                ('unless_t', X, Y, 0, 0), ('until', X, Y), ('eventually', X), ('always', X), ('eventually_t', ('next', X), 0, 1), ('always_t', ('until_t', X, Y, 0, 0), 0, 1)]
    for g in past_bad:
        for wfn in wraps_ct[:3] + [lambda g: ('eventually_t', g, 0, 1)] + wraps_pred:
            f = wfn(g)
            for kind in ('ct-online-pastified', 'ct-combined-pastified'):
                out.append(ob('C17', 'rejected', 'reject/%s/%s' % (kind, text(f)), f=f, kind=kind, validate=0))
            if g[0] in ('until_t', 'unless_t', 'next', 'until'):
                for kind in ('ct-online-pastified2', 'ct-combined-pastified2'):        # ... and after a second pastify()
                    out.append(ob('C17', 'rejected', 'reject/%s/%s' % (kind, text(f)), f=f, kind=kind, validate=0))
    dense_online_bad = [('until_t', X, Y, 0, 1), ('until_t', X, Y, 1, 2), ('until', X, Y), ('eventually', X), ('always', X),
                        ('eventually_t', X, 0, 1), ('always_t', X, 0, 1), ('unless_t', X, Y, 0, 1)]
    for g in dense_online_bad:
        for wfn in wraps_ct[:3]:
            f = wfn(g)
            for kind in ('ct-online', 'ct-combined-on'):
                out.append(ob('C17', 'rejected', 'reject/%s/%s' % (kind, text(f)), f=f, kind=kind, validate=0))
    seen = set()
    return [o for o in out if not (o['oid'] in seen or seen.add(o['oid']))]
