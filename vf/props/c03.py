"""C03 — pastified bounded-future monitor = original robustness delayed by the horizon."""
from .. import dt, refsem, symx
from ..core import ob
from ..refsem import T, text, variables, rho, hor, X, Y, Z

INFO = {
    'functions': ['rtamt.pastifier.stl.pastifier.StlPastifier.pastify / visit* (all)', 'rtamt.pastifier.stl.horizon.StlHorizon.visit*',
                  'rtamt.pastifier.ltl.pastifier.LtlPastifier, rtamt.pastifier.ltl.horizon.LtlHorizon',
                  'online monitor on the pastified AST incl. rtamt.semantics.stl.discrete_time.online.precedes_timed_operation',
                  'rtamt.spec.abstract_specification.AbstractOnlineSpecification.pastify'],
    'bounds': {'quick': 'F-fut: bounded-future operators x bounds, chains depth<=2, siblings of different horizons, future under past / past '
                        'under future; N = h+1..h+4 (h<=6); unit spellings s/ms with period 1s and 500ms; per-operator step: every operator over operands next^h1(x), next^h2(y), h1,h2 in 0..2, at the root and below a sibling of larger horizon; iff/xor/comparison connectives next to shorter siblings at depth 3; LTL pastifier on next-chains; the notation cases of vf/pool.py (bounded-future ones against the delayed oracle, future-free ones unchanged by pastify())',
               'thorough': 'chains depth<=3, all F2 combinations of future with past/Boolean/arithmetic operators, 2000 seeded depth-3/4 formulas, N up to h+5'},
    'outside': 'horizons above 8 samples; formulas deeper than 4',
    'assumptions': ['horizon h is computed by the check itself (refsem.hor), not taken from rtamt',
                    'oracle: update_i(pastified) == rho(phi, w[0..i], i-h) for i >= h (robustness at i-h on the prefix seen so far)'],
    'explanation': 'pastify() rewrites the concrete AST; the rewritten monitor then runs on symbolic samples and z3 compares every update with the README semantics of the ORIGINAL formula',
}

LTL_OK = {'not', 'and', 'or', 'implies', 'iff', 'xor', 'prev', 's_prev', 'next', 's_next', 'once', 'historically', 'since',
          'rise', 'fall', 'abs', 'add', 'sub', 'mul', 'leq', 'lt', 'geq', 'gt', 'eq', 'neq'}


def _make(kind, spec_text, vs, period=None, unit=None, twice=False):
    if kind == 'ltl':
        from rtamt.spec.abstract_specification import AbstractOnlineSpecification
        from rtamt.syntax.ast.parser.ltl.specification_parser import LtlAst
        from rtamt.pastifier.ltl.pastifier import LtlPastifier
        from rtamt.semantics.stl.discrete_time.online.interpreter import StlDiscreteTimeOnlineInterpreter
        s = AbstractOnlineSpecification(LtlAst(), StlDiscreteTimeOnlineInterpreter(), pastifier=LtlPastifier())
        for v in vs:
            s.declare_var(v, 'float')
        s.spec = spec_text
        s.parse()
        s.pastify()
        return s
    return dt.make_spec(kind, spec_text, vs, pastify=('twice' if twice else True), period=period, unit=unit)


def past_reach(f):
    """how many samples after i=h a past operator sitting above a future operator can still see the first h
    updates of its (delayed) operand: 0 if no past operator is above a future one, INF for unbounded ones"""
    f = T(f)
    if f[0] in ('var', 'const') or not refsem.has_future(f):
        return 0
    sub = max(past_reach(c) for c in refsem.kids(f))
    fut_kids = any(refsem.has_future(c) for c in refsem.kids(f))
    k = f[0]
    if not fut_kids:
        return sub
    if k in ('prev', 's_prev', 'rise', 'fall'):
        return sub + 1
    if k in ('once', 'historically', 'since'):
        return refsem.INF
    if k in ('once_t', 'historically_t'):
        return sub + f[3] + 1
    if k == 'since_t':
        return sub + f[4] + 1
    return sub


def h_delay(f, N, kind='combined', period=None, unit=None, txt=None, resets=0, defs=None, twice=False):
    """f: formula in SAMPLES (oracle); txt: concrete text if it differs from text(f) (unit spellings);
    defs: named sub-formulas defined by earlier assertions of the same text (f then refers to them by name; the oracle inlines them)"""
    f = T(f)
    full_text = None
    if defs:
        from .c09 import inline
        dl = [(n, T(d)) for n, d in defs]
        full_text = '\n'.join('%s = %s;' % (n, text(d)) for n, d in dl) + '\nout = ' + text(f) + ';'
        f = inline(f, dict(dl))
    vs = sorted(variables(f))
    h = hor(f)
    reach = past_reach(f)

    def body(env):
        A = env.A
        s = _make(kind, full_text or ('out = ' + (txt or text(f))), vs, period, unit, twice)
        for r in range(resets):
            # the same monitor object was used on other traces before and reset() each time
            w0 = dt.trace(env, vs, 2 + r, prefix='r%d_' % r)
            dt.online(s, w0, 2 + r)
            s.reset()
        w = dt.trace(env, vs, N)
        got = dt.online(s, w, N)
        env.observe('online', got)
        res = []
        for i in range(h, N):
            pref = {v: w[v][:i + 1] for v in vs}
            want = rho(A, f, pref, i + 1)[i - h]
            # "early": a past operator above a future one may still see the not-yet-meaningful first h outputs
            # of its delayed operand (known algorithmic limitation of the pastifier, kept apart from the rest)
            res.append((('early@%d' if i - h < reach else 'delay@%d') % i, A.eq(got[i], want)))
        return res
    return body


def h_unbounded(f, kind='combined'):
    """unbounded future: pastify() must raise RTAMTException"""
    f = T(f)
    vs = sorted(variables(f))

    def body(env):
        import rtamt
        A = env.A
        env.real('dummy')
        try:
            s = dt.make_spec(kind, 'out = ' + text(f), vs, pastify=True)
        except rtamt.RTAMTException:
            return [('rejected', A.true)]
        return [('rejected', A.false)]
    return body


def h_nofuture(f, N, txt, period=None, unit=None):
    """future-free formula: pastify() must not change the meaning, whatever the units"""
    f = T(f)
    vs = sorted(variables(f))

    def body(env):
        A = env.A
        s1 = dt.make_spec('combined', 'out = ' + txt, vs, pastify=True, period=period, unit=unit)
        s2 = dt.make_spec('online', 'out = ' + txt, vs, pastify=False, period=period, unit=unit)
        w = dt.trace(env, vs, N)
        g1 = dt.online(s1, w, N)
        g2 = dt.online(s2, w, N)
        env.observe('pastified', g1)
        ref = rho(A, f, w, N)
        return dt.eq_list(A, 'same', g1, g2) + dt.eq_list(A, 'rho', g1, ref)
    return body


def ffut(quick):
    bq = [(0, 1), (1, 2), (0, 2), (2, 2)] if quick else [(0, 0), (0, 1), (1, 1), (0, 2), (1, 2), (2, 2), (1, 3), (0, 3)]
    fut1 = []
    for a, b in bq:
        fut1 += [('eventually_t', X, a, b), ('always_t', X, a, b), ('until_t', X, Y, a, b), ('unless_t', X, Y, a, b)]
    fut1 += [('next', X), ('s_next', X), ('next', ('next', X))]
    out = list(fut1)
    sib = [Y, ('once_t', Y, 0, 1), ('historically_t', Y, 0, 1), ('historically_t', Y, 1, 2), ('since_t', Y, Z, 0, 1), ('once', Y),
           ('historically', Y), ('since', Y, Z), ('prev', Y), ('s_prev', Y), ('rise', Y), ('fall', Y), ('geq', Y, Z), ('add', Y, Z),
           ('abs', Y), ('not', Y), ('eventually_t', Y, 0, 1), ('always_t', Y, 1, 2), ('next', Y), ('const', 1.0)]
    small = [('eventually_t', X, 0, 2), ('always_t', X, 1, 2), ('until_t', X, Z, 0, 1), ('next', X)]
    for fu in (small if quick else fut1):
        for sb in sib:
            for k in ('and', 'or', 'implies', 'sub', 'iff', 'xor'):
                if k in ('sub', 'iff', 'xor') and sb[0] not in ('var', 'geq', 'add', 'abs', 'const', 'not'):
                    continue          # inf - inf: both sides may be infinite, nothing to compare
                out.append((k, fu, sb))
                if k in ('implies', 'sub', 'iff', 'xor'):
                    out.append((k, sb, fu))
    # future under past / Boolean / arithmetic, past under future
    wrap_un = ['not', 'abs', 'neg', 'once', 'historically', 'prev', 's_prev', 'rise', 'fall', 'next', 's_next']
    for fu in small:
        for k in wrap_un:
            out.append((k, fu))
        for a, b in [(0, 1), (1, 2)]:
            for k in ('once_t', 'historically_t', 'eventually_t', 'always_t'):
                out.append((k, fu, a, b))
            out.append(('since_t', fu, Y, a, b))
            out.append(('since_t', Y, fu, a, b))
            out.append(('until_t', fu, Y, a, b))
            out.append(('until_t', Y, fu, a, b))
        out.append(('since', fu, Y))
        out.append(('since', Y, fu))
        out.append(('geq', fu, ('const', 0.5)))
    for pa in [('once_t', X, 0, 1), ('historically_t', X, 1, 2), ('once', X), ('historically', X), ('prev', X), ('since', X, Y),
               ('since_t', X, Y, 0, 1), ('rise', X), ('geq', X, Y), ('abs', X)]:
        for a, b in [(0, 1), (1, 2)]:
            out.append(('eventually_t', pa, a, b))
            out.append(('always_t', pa, a, b))
            out.append(('until_t', pa, Z, a, b))
        out.append(('next', pa))
    return out


UNIT_CASES = [
    # (formula in samples, text, period, unit)
    (('eventually_t', X, 0, 2), 'eventually[0ms,2000ms](x)', None, None),
    (('eventually_t', X, 0, 2), 'eventually[0,2s](x)', None, None),
    (('always_t', X, 1, 2), 'always[1000ms,2s](x)', None, None),
    (('until_t', X, Y, 1, 2), '(x) until[1s,2000ms] (y)', None, None),
    (('eventually_t', X, 0, 2), 'eventually[0,1000](x)', (500, 'ms'), 'ms'),
    (('and', ('eventually_t', X, 0, 2), ('once_t', Y, 0, 1)), '(eventually[0,2](x)) and (once[0ms,1000ms](y))', None, None),
    (('and', ('eventually_t', X, 0, 2), ('once_t', Y, 0, 1)), '(eventually[0s,2s](x)) and (once[0,1](y))', None, None),
    (('and', ('eventually_t', X, 0, 1), ('historically_t', Y, 0, 1)), '(eventually[0,1000ms](x)) and (historically[0,1000ms](y))', None, None),
    # period finer than the default unit: bounds are fractions of the default unit
    (('always_t', X, 0, 3), 'always[0,1500ms](x)', (500, 'ms'), 's'),
    (('until_t', X, Y, 1, 3), '(x) until[0.5,1.5] (y)', (500, 'ms'), 's'),
    (('implies', ('geq', X, ('const', 0.0)), ('eventually_t', ('geq', Y, ('const', 0.0)), 1, 5)),
     '((x) >= (0.0)) implies (eventually[500ms,2500ms]((y) >= (0.0)))', (500, 'ms'), 's'),
    (('and', ('eventually_t', X, 1, 3), ('once_t', Y, 0, 1)), '(eventually[0.5,1.5](x)) and (once[0,500ms](y))', (500, 'ms'), None),
    (('eventually_t', ('always_t', X, 0, 1), 1, 2), 'eventually[250ms,500ms](always[0,0.25](x))', (250, 'ms'), 's'),
    # next is one SAMPLE whatever the sampling period is: its siblings are delayed by one sample, not by one default unit
    (('or', ('next', X), Y), '(next(x)) or (y)', (500, 'ms'), 's'),
    (('and', ('next', ('next', X)), ('once_t', Y, 0, 1)), '(next(next(x))) and (once[0,500ms](y))', (500, 'ms'), 's'),
    (('or', ('next', X), ('eventually_t', Y, 0, 2)), '(next(x)) or (eventually[0,1](y))', (500, 'ms'), 's'),
    (('or', ('s_next', X), Y), '(s_next(x)) or (y)', (250, 'ms'), 's'),
    (('or', ('next', X), Y), '(next(x)) or (y)', (2, 's'), 's'),
    (('and', ('eventually_t', X, 1, 2), ('next', Y)), '(eventually[1s,2s](x)) and (next(y))', (1, 's'), 'ms'),
    # strong and weak next below / beside operators of larger horizon, sampling period other than the default unit
    (('and', ('s_next', X), ('eventually_t', Y, 0, 2)), '(s_next(x)) and (eventually[0,1](y))', (500, 'ms'), 's'),
    (('and', ('next', X), ('eventually_t', Y, 0, 2)), '(next(x)) and (eventually[0,1](y))', (500, 'ms'), 's'),
    (('or', ('s_next', ('s_next', X)), ('always_t', Y, 1, 4)), '(s_next(s_next(x))) or (always[0.5,2](y))', (500, 'ms'), 's'),
    (('eventually_t', ('s_next', X), 0, 2), 'eventually[0,500ms](s_next(x))', (250, 'ms'), 's'),
    (('until_t', ('s_next', X), Y, 1, 2), '(s_next(x)) until[2,4] (y)', (2, 's'), 's'),
    (('and', ('s_next', X), ('eventually_t', Y, 0, 3)), '(s_next(x)) and (eventually[0,3s](y))', (1, 's'), 'ms'),
    # a unit on ONE bound only, different from the default unit, the unit-less bound not 0: it takes the other bound's unit
    (('eventually_t', X, 1, 3), 'eventually[1:3ms](x)', (1, 'ms'), 's'),
    (('always_t', X, 2, 4), 'always[2ms:4](x)', (1, 'ms'), 's'),
    (('eventually_t', X, 1, 2), 'eventually[1:2s](x)', (1, 's'), 'ms'),
    (('and', ('until_t', X, Y, 1, 2), ('once_t', Y, 0, 1)), '((x) until[1,2s] (y)) and (once[0,1s](y))', (1, 's'), 'ms'),
    (('or', ('eventually_t', X, 2, 3), ('historically_t', Y, 1, 2)), '(eventually[1000us,1500](x)) or (historically[500,1000us](y))', (500, 'us'), 'ms'),
]
NOFUT_CASES = [
    (('once_t', X, 0, 2), 'once[0ms,2000ms](x)', None, None),
    (('once_t', X, 1, 2), 'once[1s,2000ms](x)', None, None),
    (('historically_t', X, 1, 2), 'historically[1000ms,2s](x)', None, None),
    (('since_t', X, Y, 0, 2), '(x) since[0,2000ms] (y)', None, None),
    (('once_t', X, 0, 2), 'once[0,1000](x)', (500, 'ms'), 'ms'),
    (('once_t', X, 1, 2), 'once[1,2](x)', None, None),
    (('and', ('once_t', X, 0, 1), ('historically_t', Y, 1, 2)), '(once[0,1s](x)) and (historically[1000ms,2000ms](y))', None, None),
    (('since', ('once_t', X, 0, 1), Y), '(once[0us,1000000us](x)) since (y)', None, None),
    (('since_t', X, Y, 1, 3), '(x) since[500ms,1500ms] (y)', (500, 'ms'), 's'),
    (('and', ('once_t', X, 1, 5), ('historically_t', Y, 0, 3)), '(once[0.5,2.5](x)) and (historically[0,1500ms](y))', (500, 'ms'), 's'),
    (('once_t', X, 1, 2), 'once[0.25,0.5](x)', (250, 'ms'), None),
    (('once_t', X, 1, 2), 'once[1:2ms](x)', (1, 'ms'), 's'),
    (('historically_t', X, 2, 3), 'historically[2ms:3](x)', (1, 'ms'), 's'),
    (('since_t', X, Y, 1, 2), '(x) since[1,2s] (y)', (1, 's'), 'ms'),
]


def obligations(tier, rng):
    quick = tier == 'quick'
    out = []
    fs = ffut(quick)
    if quick:
        base = [f for f in fs if refsem.size(f) <= 3]
        rest = [f for f in fs if refsem.size(f) > 3]
        always_in = [('and', ('next', X), Y), ('or', ('eventually_t', X, 0, 2), ('historically_t', Y, 0, 1))]   # twin picks / regressions
        fs = base + always_in + rng.sample(rest, min(len(rest), 160))
    for f in fs:
        h = hor(f)
        if h > 8:
            continue
        for N in ([h + 3] if quick else [h + 1, h + 4]):
            out.append(ob('C03', 'delay', 'Ffut/%s/N=%d' % (text(f), N), f=f, N=N))
    # structured depth 3: future operator over a connective over another temporal operator (both operand positions)
    outers = [lambda g: ('eventually_t', g, 0, 2), lambda g: ('always_t', g, 1, 2), lambda g: ('next', g), lambda g: ('until_t', g, Z, 0, 1),
              lambda g: ('until_t', Z, g, 1, 2), lambda g: ('not', ('eventually_t', g, 0, 1))]
    inners = [('eventually_t', X, 0, 1), ('always_t', X, 0, 1), ('once_t', X, 0, 1), ('historically_t', X, 1, 2), ('since_t', X, Z, 0, 1), ('prev', X),
              ('next', X), ('once', X), ('historically', X), ('since', X, Z), ('until_t', X, Z, 0, 1), ('rise', X)]
    for oi, o in enumerate(outers):
        for inn in inners:
            for c in ('and', 'or', 'implies', 'sub', 'iff'):
                for left in (True, False):
                    if quick and (c == 'sub' or (not left and c not in ('implies', 'iff'))):
                        continue
                    g = (c, inn, Y) if left else (c, Y, inn)
                    f = o(g)
                    h = hor(f)
                    if h <= 8:
                        out.append(ob('C03', 'delay', 'depth3/%s/N=%d' % (text(f), h + 3), f=f, N=h + 3))
    # a connective whose OWN horizon comes from one operand, used next to a sibling with a smaller horizon (three levels)
    for c in ('and', 'or', 'implies', 'iff', 'xor', 'sub', 'geq'):
        for fu in [('eventually_t', Y, 0, 2), ('next', Y), ('always_t', Y, 1, 2)]:
            for inner in [(c, X, fu), (c, fu, X)]:
                for k in ('and', 'or', 'implies', 'until_t'):
                    for f in ([(k, Z, inner), (k, inner, Z)] if k != 'until_t' else [(k, Z, inner, 0, 1), (k, inner, Z, 0, 1)]):
                        h = hor(f)
                        out.append(ob('C03', 'delay', 'sibling3/%s/N=%d' % (text(f), h + 3), f=f, N=h + 3))
    # per-operator step: every operator over operands of EVERY small horizon pair (operand = next^h(var)), at the root and below a
    # sibling with a larger horizon (so that the operator is pastified at a non-zero remaining horizon)
    def nx(h, v):
        for _ in range(h):
            v = ('next', v)
        return v
    un_ops = ['not', 'neg', 'abs', 'rise', 'fall', 'prev', 's_prev', 'next', 's_next', 'once', 'historically']
    bin_ops = ['and', 'or', 'implies', 'iff', 'xor', 'add', 'sub', 'mul', 'leq', 'lt', 'geq', 'gt', 'eq', 'neq', 'since']
    hs = (0, 1, 2)
    steps = []
    for h1 in hs:
        steps += [(k, nx(h1, X)) for k in un_ops] + [(k, nx(h1, X), a, b) for k in refsem.UNT for a, b in [(0, 1), (1, 2)]]
        for h2 in hs:
            if h1 == h2 == 0:
                continue
            steps += [(k, nx(h1, X), nx(h2, Y)) for k in bin_ops] + [(k, nx(h1, X), nx(h2, Y), a, b) for k in refsem.BINT for a, b in [(0, 1), (1, 2)]]
    for f in steps:
        if hor(f) == 0:
            continue
        ctxs = [f, ('or', nx(hor(f) + 1, Z), f)]
        if quick and (refsem.size(f) > 4 and f[0] not in ('iff', 'xor', 'until_t', 'since_t', 'unless_t', 'since', 'implies', 'sub', 'geq')):
            ctxs = ctxs[:1]
        for g in ctxs:
            out.append(ob('C03', 'delay', 'hstep/%s/N=%d' % (text(g), hor(g) + 3), f=g, N=hor(g) + 3))
    if not quick:
        for i in range(2000):
            f = refsem.gen_formula(rng, rng.choice([3, 4]),
                                   ['eventually_t', 'always_t', 'until_t', 'next', 'and', 'or', 'not', 'once_t', 'historically_t',
                                    'since', 'prev', 'geq', 'sub', 'abs', 'implies', 'once'], [(0, 1), (1, 2), (0, 2)], ('x', 'y'))
            h = hor(f)
            if h > 7 or h == 0:
                continue
            out.append(ob('C03', 'delay', 'F3/%d/%s/N=%d' % (i, text(f), h + 3), f=f, N=h + 3))
    # a pastified monitor re-used after one, two and three reset() calls
    for f in [('and', ('eventually_t', ('historically', X), 0, 2), ('always_t', ('geq', Y, ('const', 0.0)), 0, 1)), ('eventually_t', ('once', X), 0, 1),
              ('until_t', X, ('since', Y, X), 0, 1), ('and', ('next', X), ('rise', Y)), ('always_t', ('once_t', X, 0, 1), 1, 2), ('or', ('next', ('prev', X)), ('s_prev', Y))]:
        for r in (1, 2, 3):
            out.append(ob('C03', 'delay', 'reused/%s/resets=%d' % (text(f), r), f=f, N=hor(f) + 3, resets=r))
    # pastify() called TWICE: the second call finds a specification without future operators and must leave it as it is
    for f in [('eventually_t', X, 0, 2), ('always_t', X, 1, 2), ('until_t', X, Y, 1, 2), ('unless_t', X, Y, 0, 1), ('and', ('next', X), Y), ('or', ('until_t', X, Y, 0, 1), ('once_t', Z, 0, 1)),
              ('eventually_t', ('until_t', X, Y, 0, 1), 0, 1), ('implies', ('geq', X, ('const', 0.0)), ('eventually_t', ('geq', Y, ('const', 0.0)), 1, 2)), ('since_t', X, Y, 0, 2)]:
        h = hor(f)
        out.append(ob('C03', 'delay', 'pastify-twice/%s/N=%d' % (text(f), h + 3), f=f, N=h + 3, twice=True))
    for f, txt, period, unit in UNIT_CASES:
        h = hor(f)
        out.append(ob('C03', 'delay', 'units/%s/p=%s' % (txt, period), f=f, N=h + 3, txt=txt, period=period, unit=unit))
    # named sub-formulas referenced at the top, below Boolean connectives and BELOW future operators (where the remaining horizon at
    # the place of reference is smaller than the horizon of the referring assertion), once or several times
    PS, QS = ('var', 'psub'), ('var', 'qsub')
    G0 = lambda v: ('geq', v, ('const', 0.0))
    named = [([('psub', G0(X)), ('qsub', G0(Y))], ('always_t', ('implies', PS, QS), 0, 3)),
             ([('psub', G0(X)), ('qsub', ('eventually_t', G0(Y), 0, 2))], ('always_t', ('implies', PS, QS), 0, 3)),
             ([('psub', ('once_t', X, 0, 1))], ('eventually_t', PS, 1, 2)),
             ([('psub', ('once_t', X, 0, 1))], ('or', PS, ('eventually_t', PS, 0, 2))),
             ([('psub', ('eventually_t', X, 0, 1))], ('and', ('next', PS), Y)),
             ([('psub', G0(X))], ('until_t', PS, G0(Y), 1, 2)),
             ([('psub', ('always_t', X, 0, 1)), ('qsub', ('or', PS, Y))], ('eventually_t', QS, 0, 2)),
             ([('psub', ('prev', X))], ('and', ('always_t', PS, 0, 2), ('eventually_t', Y, 0, 1))),
             ([('psub', G0(X))], ('next', ('next', PS)))]
    for defs, main in named:
        from .c09 import inline
        h = hor(inline(T(main), {n: T(d) for n, d in defs}))
        out.append(ob('C03', 'delay', 'named/%s/%s' % (';'.join('%s=%s' % (n, text(d)) for n, d in defs), text(main)), f=main, N=h + 3, defs=defs))
    from .. import pool
    for g in pool.FUTURE:
        period, unit = refsem.cfg(g)
        h = hor(g[2])
        out.append(ob('C03', 'delay', 'units/pool/%s/p=%s/unit=%s' % (g[1], period, unit), f=g[2], N=h + 3, txt=g[1], period=list(period) if period else None, unit=unit))
    for g in pool.PAST:
        period, unit = refsem.cfg(g)
        out.append(ob('C03', 'nofuture', 'nofuture/pool/%s/p=%s/unit=%s' % (g[1], period, unit), f=g[2], N=6, txt=g[1], period=list(period) if period else None, unit=unit))
    for f, txt, period, unit in NOFUT_CASES:
        out.append(ob('C03', 'nofuture', 'nofuture/%s/p=%s' % (txt, period), f=f, N=6, txt=txt, period=period, unit=unit))
    for f in [('eventually', X), ('always', X), ('until', X, Y), ('and', ('always', X), Y), ('once', ('eventually', X)),
              ('eventually_t', ('always', X), 0, 1), ('unless', X, Y)]:
        out.append(ob('C03', 'unbounded', 'unbounded/%s' % text(f), f=f, validate=0))
    for f in [('next', X), ('next', ('next', X)), ('and', ('next', X), Y), ('or', ('next', X), ('next', ('next', Y))),
              ('s_next', ('not', X)), ('implies', Y, ('next', ('once', X))), ('since', ('next', X), Y), ('prev', ('next', X)),
              ('rise', ('next', X)), ('historically', ('next', X))]:
        h = hor(f)
        out.append(ob('C03', 'delay', 'ltl/%s/N=%d' % (text(f), h + 3), f=f, N=h + 3, kind='ltl'))
    seen = set()
    res_ = [o for o in out if not (o['oid'] in seen or seen.add(o['oid']))]
    from .. import core as _core
    res_ = res_ + _core.make_twins(res_, [('Ffut/eventually[0,2](x)/N=5', 'window'), ('Ffut/(next(x)) and (y)/N=4', 'minmax'), ('nofuture/once[1s,2000ms](x)', 'window')]) + _core.make_forkmode(res_, ['Ffut/(x) until[1,2] (y)/N=5'])
    return res_
