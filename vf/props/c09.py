"""C09 — modular specifications are equivalent to their inlined form."""
from .. import ct, dt, refct, refsem, symx
from ..core import ob
from ..refsem import T, text, variables, rho, hor, X, Y, Z

INFO = {
    'functions': ['rtamt.syntax.ast.parser.ltl.parser_visitor.visitExprId / visitAssertion (sub-spec resolution)', 'rtamt.syntax.ast.parser.abstract_ast_parser (add_sub_spec, declare_const, parse)',
                  'rtamt.syntax.ast.visitor.abstract_ast_visitor.visitAst / visitSpec', 'rtamt.semantics.abstract_online_interpreter (spec forest update/reset)',
                  'all four interpreters on the resulting spec forest', 'rtamt.pastifier.stl.pastifier on a spec forest'],
    'bounds': {'quick': '11 stateful/stateless sub-spec definitions x 9 referencing formulas (1-3 references, nested sub-specs) x {add_sub_spec, several assertions in one text} '
                        'x dt offline/online/pastified (N=5) ; constants as operands and as bounds; dense time offline/online n=3 on 5x4 pairs; constants declared with every type name and a non-integral value',
               'thorough': 'N=7, two-level nesting of sub-specs, more dense pairs, n=4'},
    'outside': 'sub-specifications imported from modules; object-typed variables',
    'assumptions': [],
    'explanation': 'the decomposition is enumerated; z3 decides for all sample values that the modular monitor and the inlined monitor return the same values',
}

P, Q = ('var', 'p'), ('var', 'q')
C15 = ('const', 1.5)


def inline(f, defs):
    f = T(f)
    if f[0] == 'var':
        return inline(defs[f[1]], defs) if f[1] in defs else f
    if f[0] == 'const':
        return f
    return tuple(inline(c, defs) if isinstance(c, tuple) else c for c in f)


def _specs(style, defs_list, main, vs, kind, mk, pastify):
    """returns (modular spec, inlined spec)"""
    names = [n for n, _ in defs_list]
    defs = dict(defs_list)
    if style == 'sub':
        subs = ['%s = %s;' % (n, text(d)) for n, d in defs_list]
        sm = mk(kind, 'out = ' + text(main), vs + names, pastify=pastify, subs=subs)
    elif style == 'multi':
        txt = '\n'.join('%s = %s;' % (n, text(d)) for n, d in defs_list) + '\nout = ' + text(main) + ';'
        sm = mk(kind, txt, vs + names, pastify=pastify)
    else:           # implicit: sub-spec names are not declared
        subs = ['%s = %s;' % (n, text(d)) for n, d in defs_list]
        sm = mk(kind, 'out = ' + text(main), vs, pastify=pastify, subs=subs)
    si = mk(kind, 'out = ' + text(inline(main, defs)), vs, pastify=pastify)
    return sm, si


def _mk_dt(kind, txt, vs, pastify=False, subs=()):
    return dt.make_spec(kind, txt, vs, pastify=pastify, subs=subs)


def _mk_ct(kind, txt, vs, pastify=False, subs=()):
    import rtamt
    s = ct.KINDS[kind]()
    for v in vs:
        s.declare_var(v, 'float')
    for sub in subs:
        s.add_sub_spec(sub)
    s.spec = txt
    s.parse()
    return s


def h_dt(defs, main, N, mode, style, twice=False):
    defs_list = [(n, T(d)) for n, d in defs]
    main = T(main)
    full = inline(main, dict(defs_list))
    vs = sorted(set(variables(full)).union(*[variables(inline(d, dict(defs_list))) for _, d in defs_list]))   # also those of unreferenced sub-specs

    def body(env):
        A = env.A
        kind = 'offline' if mode == 'offline' else 'combined'
        sm, si = _specs(style, defs_list, main, vs, kind, _mk_dt, mode == 'pastified')
        if twice and mode == 'offline':
            w0 = dt.trace(env, vs, N, prefix='first_')      # an earlier evaluation of the same objects on other data
            dt.offline(sm, w0, N)
            dt.offline(si, w0, N)
        w = dt.trace(env, vs, N)
        if mode == 'offline':
            gm = [p[1] for p in dt.offline(sm, w, N)]
            gi = [p[1] for p in dt.offline(si, w, N)]
        else:
            gm = dt.online(sm, w, N)
            gi = dt.online(si, w, N)
        env.observe('modular', gm)
        res = dt.eq_list(A, 'inlined', gm, gi)
        if mode != 'pastified':
            res += dt.eq_list(A, 'rho', gm, rho(A, full, w, N))
        return res
    return body


def h_const(txt_mod, consts, txt_inl, N, mode, f, unit=None, period=None):
    f = T(f)
    vs = sorted(variables(f))

    def body(env):
        A = env.A
        kind = 'offline' if mode == 'offline' else 'combined'
        pk = dict(unit=unit, period=tuple(period) + (0.1,)) if period else {}
        sm = dt.make_spec(kind, txt_mod, vs, consts=[tuple(c) for c in consts], pastify=(mode == 'pastified'), **pk)
        si = dt.make_spec(kind, txt_inl, vs, pastify=(mode == 'pastified'), **pk)
        w = dt.trace(env, vs, N)
        if mode == 'offline':
            gm = [p[1] for p in dt.offline(sm, w, N)]
            gi = [p[1] for p in dt.offline(si, w, N)]
        else:
            gm = dt.online(sm, w, N)
            gi = dt.online(si, w, N)
        env.observe('modular', gm)
        res = dt.eq_list(A, 'inlined', gm, gi)
        if mode != 'pastified':
            res += dt.eq_list(A, 'rho', gm, rho(A, f, w, N))
        return res
    return body


def h_const_ct(txt_mod, consts, txt_inl, vs, ns, mode, parts=None):
    """dense time: declared constants (as values, referenced once or several times) against the text with the literals written in; online
    also fed in several update() calls on a concrete grid"""
    def body(env):
        A = env.A
        sm = ct.make_spec(mode, txt_mod, vs, consts=[tuple(c) for c in consts])
        si = ct.make_spec(mode, txt_inl, vs)
        sigs = {v: ct.signal(env, v, n, 'zero', grid=(list(range(n)) if parts else None)) for v, n in zip(vs, ns)}
        if mode == 'offline':
            om, oi = sm.evaluate(*[[v, [list(p) for p in sigs[v]]] for v in vs]), si.evaluate(*[[v, [list(p) for p in sigs[v]]] for v in vs])
        else:
            om, oi = [], []
            for part in (parts or [list(range(max(ns)))]):
                om += sm.update(*[[v, [list(sigs[v][i]) for i in part if i < len(sigs[v])]] for v in vs])
                oi += si.update(*[[v, [list(sigs[v][i]) for i in part if i < len(sigs[v])]] for v in vs])
        om, oi = [list(p) for p in om], [list(p) for p in oi]
        env.observe('modular', om)
        res = ct.wellformed(A, om, 'modular') + [('same-length', A.bool(len(om) == len(oi)))]
        if len(om) == len(oi):
            for i in range(len(om)):
                res.append(('inlined@%d' % i, A.And(A.eq(om[i][0], oi[i][0]), A.eq(om[i][1], oi[i][1]))))
        return res
    return body


def h_dotted(txt_mod, f, N, mode):
    """sub-specifications assigned to FIELDS of a variable of a user type (o.x = ...; o.y = ...), referred to by their dotted names: same values
    as the formula with the definitions written out (f); discrete offline, online, pastified"""
    f = T(f)
    vs = sorted(variables(f))

    def body(env):
        import rtamt
        A = env.A
        cls = rtamt.StlDiscreteTimeOfflineSpecification if mode == 'offline' else rtamt.StlDiscreteTimeSpecification
        sm = cls()
        sm.import_module('vf.objmsg', 'Msg')
        sm.declare_var('o', 'Msg')
        for v in vs:
            sm.declare_var(v, 'float')
        sm.spec = txt_mod
        sm.parse()
        if mode == 'pastified':
            sm.pastify()
        si = dt.make_spec('offline' if mode == 'offline' else 'combined', 'out = ' + text(f), vs, pastify=(mode == 'pastified'))
        w = dt.trace(env, vs, N)
        if mode == 'offline':
            gm, gi = [p[1] for p in dt.offline(sm, w, N)], [p[1] for p in dt.offline(si, w, N)]
        else:
            gm, gi = dt.online(sm, w, N), dt.online(si, w, N)
        env.observe('modular', gm)
        res = dt.eq_list(A, 'inlined', gm, gi)
        if mode != 'pastified':
            res += dt.eq_list(A, 'rho', gm, rho(A, f, w, N))
        return res
    return body


def h_ct(defs, main, ns, mode, style):
    defs_list = [(n, T(d)) for n, d in defs]
    main = T(main)
    full = inline(main, dict(defs_list))
    vs = sorted(set(variables(full)).union(*[variables(inline(d, dict(defs_list))) for _, d in defs_list]))   # also those of unreferenced sub-specs

    def body(env):
        A = env.A
        sm, si = _specs(style, defs_list, main, vs, mode, _mk_ct, False)
        sigs = {v: ct.signal(env, v, n, 'zero') for v, n in zip(vs, ns)}
        mkargs = lambda: [[v, [list(p) for p in sigs[v]]] for v in vs]
        if mode == 'offline':
            om, oi = sm.evaluate(*mkargs()), si.evaluate(*mkargs())
        else:
            om, oi = sm.update(*mkargs()), si.update(*mkargs())
        om, oi = [list(p) for p in om], [list(p) for p in oi]
        env.observe('modular', om)
        res = ct.wellformed(A, om, 'modular')
        if not oi:
            return res + [('both-empty', A.bool(not om))]
        if not om:
            return res + [('both-empty', A.false)]
        tau = env.real('tau')
        S, E = refct.domain(A, [sigs[v] for v in vs])
        lo = A.max([om[0][0], oi[0][0], S])
        env.assume(A.And(A.le(lo, tau), A.le(tau, E)))
        if mode == 'online':
            res.append(('same-cover', A.And(A.eq(om[0][0], oi[0][0]), A.eq(om[-1][0], oi[-1][0]))))
            env.assume(A.And(A.le(tau, om[-1][0]), A.le(tau, oi[-1][0])))
        res.append(('inlined', A.eq(refct.val(A, om, tau), refct.val(A, oi, tau))))
        return res
    return body


DEFS_PAST = [('prev', X), ('s_prev', X), ('once_t', X, 0, 1), ('historically_t', X, 1, 2), ('since', X, Y), ('since_t', X, Y, 0, 1),
             ('once', X), ('rise', X), ('geq', X, C15), ('abs', X), ('add', X, Y)]
DEFS_FUT = [('eventually_t', X, 0, 1), ('always_t', X, 1, 2), ('next', X), ('until_t', X, Y, 0, 1)]
MAINS = [('add', P, C15), ('and', P, Z), ('or', P, ('prev', P)), ('once', P), ('and', P, P), ('sub', ('once_t', P, 0, 1), Z),
         ('since', Z, P), ('not', P), ('and', ('and', P, Z), ('not', P))]


def obligations(tier, rng):
    quick = tier == 'quick'
    N = 5 if quick else 7
    out = []
    for d in DEFS_PAST + DEFS_FUT:
        fut = refsem.has_future(d)
        for m in MAINS:
            modes = ['offline'] + (['pastified'] if fut else ['online'])
            if not fut and not quick:
                modes.append('pastified')
            for mode in modes:
                for style in ('sub', 'multi', 'implicit'):
                    if quick and style == 'implicit' and m is not MAINS[1]:
                        continue
                    if quick and style == 'multi' and MAINS.index(m) % 2:
                        continue
                    out.append(ob('C09', 'dt', 'dt/%s/%s/p=%s/out=%s' % (mode, style, text(d), text(m)),
                                  defs=[['p', d]], main=m, N=N, mode=mode, style=style))
    # one sub-spec referenced at DIFFERENT remaining horizons inside one assertion (matters after pastify())
    for d in [('once_t', X, 0, 1), ('geq', X, C15), ('prev', X), ('eventually_t', X, 0, 1), ('since', X, Y)]:
        for m in [('implies', P, ('always_t', P, 0, 2)), ('and', P, ('eventually_t', P, 0, 1)), ('or', ('next', P), P),
                  ('and', ('eventually_t', P, 1, 2), ('historically_t', P, 0, 1))]:
            for mode in ('offline', 'pastified'):
                out.append(ob('C09', 'dt', 'dt/%s/horizons/p=%s/out=%s' % (mode, text(d), text(m)), defs=[['p', d]], main=m, N=N + 2, mode=mode, style='sub'))
    # the same specification objects evaluated a second time on different data
    for d in [('geq', X, C15), ('once_t', X, 0, 1), ('since', X, Y), ('eventually_t', X, 0, 1)]:
        for m in [('and', P, Z), ('or', P, ('prev', P)), ('always', ('implies', P, ('eventually_t', Z, 0, 2)))]:
            out.append(ob('C09', 'dt', 'dt/offline-twice/p=%s/out=%s' % (text(d), text(m)), defs=[['p', d]], main=m, N=4, mode='offline', style='sub',
                          twice=True))
    # nested sub-specs
    for d in [('prev', X), ('once_t', X, 0, 1), ('since', X, Y), ('eventually_t', X, 0, 1)]:
        for q in [('once', P), ('or', P, ('prev', P)), ('historically_t', P, 0, 1)]:
            for m in [('and', Q, P), ('or', Q, Z), ('add', Q, P)]:
                fut = refsem.has_future(d)
                for mode in ['offline'] + (['pastified'] if fut else ['online']):
                    out.append(ob('C09', 'dt', 'dt/%s/nested/p=%s/q=%s/out=%s' % (mode, text(d), text(q), text(m)),
                                  defs=[['p', d], ['q', q]], main=m, N=N, mode=mode, style='sub'))
    if not quick:
        # seeded random definitions (depth 2 over x,y) referenced by seeded random formulas (depth 2 over p,z)
        rops = ['not', 'and', 'or', 'implies', 'once', 'historically', 'prev', 'rise', 'since', 'once_t', 'historically_t', 'since_t', 'geq', 'abs', 'sub',
                'eventually_t', 'always_t', 'until_t', 'next']
        k = 0
        while k < 300:
            d = refsem.gen_formula(rng, 2, rops, [(0, 1), (1, 2)], ('x', 'y'))
            m = refsem.gen_formula(rng, 2, rops, [(0, 1), (1, 2)], ('p', 'z'))
            if 'p' not in variables(m) or d[0] in ('var', 'const'):
                continue
            k += 1
            fut = refsem.has_future(d) or refsem.has_future(m)
            if fut and hor(inline(m, {'p': d})) > 6:
                continue
            for mode in ['offline'] + (['pastified'] if fut else ['online']):
                out.append(ob('C09', 'dt', 'dt/%s/random%d/p=%s/out=%s' % (mode, k, text(d), text(m)), defs=[['p', d]], main=m, N=6, mode=mode, style='sub'))
    # the main assertion only RENAMES an earlier sub-specification while a later, unreferenced one exists (and the other way round)
    for d1, d2 in [(('once_t', X, 0, 1), ('historically', Y)), (('geq', X, C15), ('prev', X)), (('eventually_t', X, 0, 1), ('always_t', Y, 0, 2)), (('since', X, Y), ('not', X))]:
        for m in (P, Q, ('not', P)):
            full = inline(m, {'p': d1, 'q': d2})
            fut = refsem.has_future(full) or refsem.has_future(d1) or refsem.has_future(d2)
            for mode in ['offline'] + (['pastified'] if fut else ['online']):
                for style in ('sub', 'multi'):
                    out.append(ob('C09', 'dt', 'dt/%s/%s/alias/p=%s/q=%s/out=%s' % (mode, style, text(d1), text(d2), text(m)), defs=[['p', d1], ['q', d2]], main=m, N=N,
                                  mode=mode, style=style))
    # ... and the renamed sub-specification is ALSO used by another (earlier or later) assertion: q refers to p, the main assertion is p itself
    for d1 in [('geq', X, C15), ('once_t', X, 0, 1), ('since', X, Y), ('prev', X)]:
        for d2 in [('always', ('and', P, ('geq', Y, ('const', 0.0)))), ('historically', ('or', P, Y)), ('once_t', P, 0, 2), ('and', P, ('prev', P))]:
            fut = refsem.has_future(d2)
            for mode in (['offline'] if fut else ['offline', 'online']):
                for style in ('sub', 'multi'):
                    if quick and style == 'sub' and d1[0] != 'geq':
                        continue
                    out.append(ob('C09', 'dt', 'dt/%s/%s/alias-of-used/p=%s/q=%s/out=p' % (mode, style, text(d1), text(d2)), defs=[['p', d1], ['q', d2]], main=P, N=N,
                                  mode=mode, style=style))
    # a sub-specification whose whole body is a CONSTANT, referenced several times, also below a unary minus / abs
    LIM = ('var', 'lim')
    for body_ in (('const', 5.0), ('neg', ('const', 2.0)), ('add', ('const', 2.0), ('const', 3.0))):
        for m in [('and', ('leq', X, LIM), ('geq', X, ('neg', LIM))), ('geq', ('sub', X, ('neg', LIM)), ('neg', ('neg', LIM))), ('or', ('leq', ('abs', X), LIM), ('once', ('geq', Y, ('neg', LIM)))),
                  ('and', ('geq', ('neg', LIM), X), ('leq', ('neg', LIM), Y))]:
            for mode in ('offline', 'online'):
                for style in ('sub', 'multi'):
                    if quick and style == 'sub' and body_[0] != 'const':
                        continue
                    out.append(ob('C09', 'dt', 'dt/%s/%s/constant-subspec/lim=%s/out=%s' % (mode, style, text(body_), text(m)), defs=[['lim', body_]], main=m, N=N, mode=mode, style=style))
    # sub-specifications named after fields of a user-typed variable, several per variable
    GX1, LX5, GY0_ = ('geq', X, ('const', 1.0)), ('leq', X, ('const', 5.0)), ('geq', Y, ('const', 0.0))
    for tm, f in [('o.x = (x) >= (1.0);\no.y = once[0,1]((x) <= (5.0));\nout = (o.x) and (o.y)', ('and', GX1, ('once_t', LX5, 0, 1))),
                  ('o.x = (x) >= (1.0);\no.y = (x) <= (5.0);\no.z = (o.x) and (o.y);\nout = (o.z) or (historically(o.x))', ('or', ('and', GX1, LX5), ('historically', GX1))),
                  ('o.y = prev((y) >= (0.0));\no.x = (x) >= (1.0);\nout = (o.x) since (o.y)', ('since', GX1, ('prev', GY0_))),
                  ('o.x = (x) >= (1.0);\nout = (o.x) or (prev(o.x))', ('or', GX1, ('prev', GX1)))]:
        for mode in ('offline', 'online', 'pastified'):
            out.append(ob('C09', 'dotted', 'dotted-subspec/%s/%s' % (mode, tm.replace('\n', ' ')), txt_mod=tm, f=f, N=N, mode=mode))
    # constants as operands and as bounds
    const_cases = [
        ('out = (x) >= (c)', [['c', 'float', '1.5']], 'out = (x) >= (1.5)', ('geq', X, C15)),
        ('out = once[0,b]((x) + (c))', [['c', 'float', '1.5'], ['b', 'int', '2']], 'out = once[0,2]((x) + (1.5))', ('once_t', ('add', X, C15), 0, 2)),
        ('out = (x) since[a,b] ((y) - (c))', [['c', 'float', '1.5'], ['a', 'int', '1'], ['b', 'int', '2']], 'out = (x) since[1,2] ((y) - (1.5))',
         ('since_t', X, ('sub', Y, C15), 1, 2)),
        ('out = historically[a,a]((c) * (x))', [['c', 'float', '1.5'], ['a', 'int', '1']], 'out = historically[1,1]((1.5) * (x))',
         ('historically_t', ('mul', C15, X), 1, 1)),
        ('out = eventually[0,b]((x) <= (c))', [['c', 'float', '1.5'], ['b', 'int', '2']], 'out = eventually[0,2]((x) <= (1.5))',
         ('eventually_t', ('leq', X, C15), 0, 2)),
        ('out = always[a,b s]((x) + (c))', [['c', 'int', '2'], ['a', 'int', '1'], ['b', 'int', '2']], 'out = always[1,2]((x) + (2))',
         ('always_t', ('add', X, ('const', 2.0)), 1, 2)),
    ]
    for tm, cs, ti, f in const_cases:
        fut = refsem.has_future(f)
        for mode in ['offline'] + (['pastified'] if fut else ['online', 'pastified']):
            out.append(ob('C09', 'const', 'const/%s/%s' % (mode, tm), txt_mod=tm, consts=cs, txt_inl=ti, N=N, mode=mode, f=f))
    # the declared TYPE of a constant is a label: whatever it says, the constant stands for the literal that was given
    C25 = ('const', 2.5)
    for ty in ('int', 'long', 'float', 'double', 'int32', 'uint8'):
        for tm, cs, ti, f in [('out = (x) >= (c)', [['c', ty, '2.5']], 'out = (x) >= (2.5)', ('geq', X, C25)),
                              ('out = once[0,1]((x) * (c))', [['c', ty, '0.5']], 'out = once[0,1]((x) * (0.5))', ('once_t', ('mul', X, ('const', 0.5)), 0, 1)),
                              ('out = ((c) - (x)) since (y)', [['c', ty, '2.5']], 'out = ((2.5) - (x)) since (y)', ('since', ('sub', C25, X), Y)),
                              ('const %s c = 2.5\nout = (x) >= (c)' % ty, [], 'out = (x) >= (2.5)', ('geq', X, C25))]:
            if ty in ('int32', 'uint8', 'double') and tm.startswith('const'):
                continue                                   # declared in the text: only the type names the grammar knows
            for mode in (['offline', 'online'] if not quick or ty in ('int', 'long') else ['online']):
                out.append(ob('C09', 'const', 'const-type/%s/%s/%s' % (mode, ty, tm.replace('\n', ' ; ')), txt_mod=tm, consts=cs, txt_inl=ti, N=N, mode=mode, f=f))
    # fractional constants as bounds, written in a coarser unit than the default unit of the specification
    for unit, per in (('ns', (500, 'ns')), ('us', (500, 'ns')), ('ns', (500, 'us')), ('ms', (500, 'us')), ('s', (500, 'ms'))):
        cu = {'ns': 'us', 'us': 'ms', 'ms': 's'}[per[1]]
        for tm, ti, f in [('out = once[a %s,b %s]((x) + (c))' % (cu, cu), 'out = once[0.5%s,1.5%s]((x) + (1.5))' % (cu, cu), ('once_t', ('add', X, C15), 1, 3)),
                          ('out = (x) until[a %s,b %s] ((y) - (c))' % (cu, cu), 'out = (x) until[0.5%s,1.5%s] ((y) - (1.5))' % (cu, cu), ('until_t', X, ('sub', Y, C15), 1, 3))]:
            cs = [['c', 'float', '1.5'], ['a', 'float', '0.5'], ['b', 'float', '1.5']]
            for mode in ['offline'] + (['pastified'] if refsem.has_future(f) else ['online']):
                out.append(ob('C09', 'const', 'const-frac/%s/unit=%s/P=%d%s/%s' % (mode, unit, per[0], per[1], tm), txt_mod=tm, consts=cs, txt_inl=ti, N=N, mode=mode, f=f,
                              unit=unit, period=list(per)))
    # dense time: constants as values, one of them referenced several times, also through a sub-specification
    for tm, cs, ti, vs_ in [('out = ((x) >= (c)) and ((y) <= (c))', [['c', 'float', '1.5']], 'out = ((x) >= (1.5)) and ((y) <= (1.5))', ['x', 'y']),
                            ('out = once[0,1]((x) + (c)) >= (c)', [['c', 'float', '1.5']], 'out = once[0,1]((x) + (1.5)) >= (1.5)', ['x']),
                            ('p = (x) - (c);\nout = (p >= c) or (once(p) <= d)', [['c', 'float', '1.5'], ['d', 'int', '2']], 'p = (x) - (1.5);\nout = (p >= 1.5) or (once(p) <= 2)', ['x', 'p']),
                            ('out = (x) * (c) >= (d) - (c)', [['c', 'float', '0.5'], ['d', 'float', '2.5']], 'out = (x) * (0.5) >= (2.5) - (0.5)', ['x'])]:
        for mode, parts in [('offline', None), ('online', None), ('online', [[0, 1], [2]]), ('online', [[0], [1], [2]])]:
            out.append(ob('C09', 'const_ct', 'const-ct/%s/%s/%s' % (mode, parts, tm.replace('\n', ' ')), txt_mod=tm, consts=cs, txt_inl=ti, vs=vs_, ns=[3] * len(vs_), mode=mode, parts=parts,
                          max_paths=40000, wall=600))
    # dense time
    ddefs = [('once_t', X, 0, 1), ('once', X), ('not', X), ('since', X, Y), ('geq', X, C15), ('historically_t', X, 1, 2)]
    dmains = [('not', P), ('or', P, ('once', P)), ('once', P), ('and', P, P), ('historically', ('not', P))]
    for d in ddefs:
        for m in dmains:
            two = len(variables(inline(m, {'p': d}))) > 1
            for mode in ('offline', 'online'):
                if quick and (dmains.index(m) + ddefs.index(d)) % 2 and mode == 'offline':
                    continue
                out.append(ob('C09', 'ct', 'ct/%s/p=%s/out=%s' % (mode, text(d), text(m)), defs=[['p', d]], main=m,
                              ns=[2, 2] if two else [3 if quick else 4], mode=mode, style='sub', max_paths=30000, wall=900))
    for d1, d2 in [(('once_t', X, 0, 1), ('historically', X)), (('geq', X, C15), ('not', X))]:
        for m in (P, Q):
            for mode in ('offline', 'online'):
                out.append(ob('C09', 'ct', 'ct/%s/alias/p=%s/q=%s/out=%s' % (mode, text(d1), text(d2), text(m)), defs=[['p', d1], ['q', d2]], main=m, ns=[3], mode=mode, style='sub',
                              max_paths=30000, wall=900))
    seen = set()
    res_ = [o for o in out if not (o['oid'] in seen or seen.add(o['oid']))]
    from .. import core as _core
    res_ = res_ + _core.make_twins(res_, [('dt/online/sub/p=once[0,1](x)/out=(p) and (z)', 'window'), ('dt/offline/sub/p=prev(x)/out=(p) and (z)', 'pad')]) + _core.make_forkmode(res_, [])
    return res_
