"""Dense-time reference semantics of ONE operator over piecewise-constant signals, at a (symbolic) instant tau.
Written from the property text (finitary: last value held; closed intervals; non-strict until/since; right-continuous
step functions), over the same algebra A as refsem.  A signal is a list [[s_0,v_0],...,[s_m,v_m]], s_0 < ... < s_m."""
INF = float('inf')
TWIN = None      # vacuity guard, see refsem.TWIN


def val(A, sig, tau):
    """value of the step function at tau (v_0 is also returned before s_0; callers stay inside the domain)"""
    v = A.lift(sig[-1][1])
    for i in range(len(sig) - 2, -1, -1):
        v = A.ite(A.lt(tau, sig[i + 1][0]), sig[i][1], v)
    return v


def gmax(A, cands):
    """max of the values whose condition holds (-inf if none)"""
    acc = A.lift(-INF)
    for c, v in cands:
        acc = A.ite(A.And(c, A.lt(acc, v)), v, acc)
    return acc


def gmin(A, cands):
    acc = A.lift(INF)
    for c, v in cands:
        acc = A.ite(A.And(c, A.lt(v, acc)), v, acc)
    return acc


def segs(sig):
    n = len(sig)
    return [(sig[i][0], sig[i + 1][0] if i + 1 < n else None, sig[i][1]) for i in range(n)]


def window(A, sig, lo, hi, mx):
    """max/min over the segments [s_i, s_{i+1}) meeting [lo, hi]; lo/hi None = unbounded.  The last segment extends
    to +inf (last value held)."""
    c = []
    for s, e, v in segs(sig):
        cond = []
        if hi is not None:
            cond.append(A.lt(s, hi) if TWIN == 'ctwindow' else A.le(s, hi))     # twin: closed window edge made open
        if lo is not None and e is not None:
            cond.append(A.lt(lo, e))
        c.append((A.And(*cond), v))
    if TWIN == 'ctminmax':
        mx = not mx
    return gmax(A, c) if mx else gmin(A, c)


def _next(A, B, b):
    """min{b' in B : b' > b}, +inf if none"""
    return A.min([A.ite(A.lt(b, bb), bb, INF) for bb in B])


def since_like(A, f, g, tau, S, lo, hi, future):
    """f since g (future=False) / f until g (future=True) at tau; witness segments restricted to those meeting
    [lo,hi] (None = unbounded).  Elementary segments come from the unsorted union of both operands' break-points."""
    B = [s[0] for s in f] + [s[0] for s in g]
    nxt = [_next(A, B, b) for b in B]
    vf = [val(A, f, b) for b in B]
    vg = [val(A, g, b) for b in B]
    cands = []
    for i, b in enumerate(B):
        nb = nxt[i]
        if not future:
            cond = [A.le(S, b), A.le(b, tau)]
            if hi is not None:
                cond.append(A.le(b, hi))
            if lo is not None:
                cond.append(A.lt(lo, nb))
            inner = gmin(A, [(A.And(A.le(b, bp), A.le(bp, tau)), vf[j]) for j, bp in enumerate(B)])
        else:
            cond = [A.le(S, b), A.lt(tau, nb)]
            if hi is not None:
                cond.append(A.le(b, hi))
            if lo is not None:
                cond.append(A.lt(lo, nb))
            inner = gmin(A, [(A.And(A.le(S, bp), A.lt(tau, nxt[j]), A.le(bp, b)), vf[j]) for j, bp in enumerate(B)])
        cands.append((A.And(*cond), A.min([vg[i], inner])))
    return gmax(A, cands)


def domain(A, sigs):
    """common domain [S,E] of several signals"""
    S = A.max([sg[0][0] for sg in sigs])
    E = A.min([sg[-1][0] for sg in sigs])
    return S, E


# ---- operator table: name -> (arity, reference at tau) -----------------------------------------
def ref_unary(A, op, sig, tau, a=None, b=None):
    v = val(A, sig, tau)
    if op in ('not', 'neg'): return -v
    if op == 'abs': return abs(v)
    if op == 'once': return window(A, sig, None, tau, True)
    if op == 'historically': return window(A, sig, None, tau, False)
    if op == 'eventually': return window(A, sig, tau, None, True)
    if op == 'always': return window(A, sig, tau, None, False)
    if op == 'once_t': return window(A, sig, tau - b, tau - a, True)
    if op == 'historically_t': return window(A, sig, tau - b, tau - a, False)
    if op == 'eventually_t': return window(A, sig, tau + a, tau + b, True)
    if op == 'always_t': return window(A, sig, tau + a, tau + b, False)
    raise KeyError(op)


def ref_binary(A, op, f, g, tau, S, a=None, b=None):
    p, q = val(A, f, tau), val(A, g, tau)
    if op == 'and': return (A.max if TWIN == 'ctminmax' else A.min)([p, q])
    if op == 'or': return A.max([p, q])
    if op == 'implies': return A.max([-p, q])
    if op == 'iff': return -abs(p - q)
    if op == 'xor': return abs(p - q)
    if op == 'add': return p + q
    if op == 'sub': return p - q
    if op == 'mul': return p * q
    if op == 'div': return p / q
    if op in ('leq', 'lt'): return q - p
    if op in ('geq', 'gt'): return p - q
    if op == 'eq': return -abs(p - q)
    if op == 'neq': return abs(p - q)
    if op == 'since': return since_like(A, f, g, tau, S, None, None, False)
    if op == 'until': return since_like(A, f, g, tau, S, None, None, True)
    if op == 'since_t': return since_like(A, f, g, tau, S, tau - b, tau - a, False)
    if op == 'until_t': return since_like(A, f, g, tau, S, tau + a, tau + b, True)
    raise KeyError(op)


# ---- nested formulas over step signals (restricted) ------------------------------------------------
POINTWISE1 = ('not', 'neg', 'abs')
POINTWISE2 = ('and', 'or', 'implies', 'iff', 'xor', 'add', 'sub', 'mul', 'leq', 'lt', 'geq', 'gt', 'eq', 'neq')


def _pw(A, k, p, q=None):
    if k in ('not', 'neg'): return -p
    if k == 'abs': return abs(p)
    if k == 'and': return A.min([p, q])
    if k == 'or': return A.max([p, q])
    if k == 'implies': return A.max([-p, q])
    if k == 'iff': return -abs(p - q)
    if k == 'xor': return abs(p - q)
    if k == 'add': return p + q
    if k == 'sub': return p - q
    if k == 'mul': return p * q
    if k in ('leq', 'lt'): return q - p
    if k in ('geq', 'gt'): return p - q
    if k == 'eq': return -abs(p - q)
    if k == 'neq': return abs(p - q)
    raise KeyError(k)


def derive(A, f, sigs, pred=None):
    """step signal (same break-points as the single input variable) of a formula built from pointwise operators and
    UNBOUNDED temporal operators over ONE variable and constants.  once/historically are running max/min over the
    segments so far, eventually/always over the segments from here on (last value held)."""
    k = f[0]
    if k == 'var':
        return [[t, A.lift(v)] for t, v in sigs[f[1]]]
    vs = sorted(_vars(f))
    if len(vs) != 1:
        raise ValueError('derive: needs exactly one variable')
    if k in ('once', 'historically', 'eventually', 'always'):
        d = derive(A, f[1], sigs, pred)
        agg = A.max if k in ('once', 'eventually') else A.min
        n = len(d)
        if k in ('once', 'historically'):
            return [[d[i][0], agg([d[j][1] for j in range(0, i + 1)])] for i in range(n)]
        return [[d[i][0], agg([d[j][1] for j in range(i, n)])] for i in range(n)]
    if _is_pointwise(f):
        base = sigs[vs[0]]
        return [[t, point(A, f, {vs[0]: v}, pred)] for t, v in base]
    # pointwise operator over derivable operands of the same variable
    kids_ = [derive(A, c, sigs, pred) if isinstance(c, tuple) and c[0] != 'const' else None for c in f[1:] if isinstance(c, tuple)]
    base = sigs[vs[0]]
    out = []
    for i, (t, _) in enumerate(base):
        vals = [(kd[i][1] if kd is not None else A.lift(c[1])) for kd, c in zip(kids_, [c for c in f[1:] if isinstance(c, tuple)])]
        if k in POINTWISE1:
            out.append([t, _pw(A, k, vals[0])])
        else:
            v = None
            if pred is not None and k in ('leq', 'lt', 'geq', 'gt', 'eq', 'neq'):
                v = pred(f, vals[0], vals[1])
            out.append([t, v if v is not None else _pw(A, k, vals[0], vals[1])])
    return out


def _vars(f):
    if f[0] == 'var':
        return {f[1]}
    out = set()
    for c in f[1:]:
        if isinstance(c, tuple):
            out |= _vars(c)
    return out


def point(A, f, vals, pred=None):
    """value of a pointwise formula given the current value of each variable"""
    k = f[0]
    if k == 'var': return A.lift(vals[f[1]])
    if k == 'const': return A.lift(f[1])
    if k in POINTWISE1:
        return _pw(A, k, point(A, f[1], vals, pred))
    if k in POINTWISE2:
        p, q = point(A, f[1], vals, pred), point(A, f[2], vals, pred)
        if pred is not None and k in ('leq', 'lt', 'geq', 'gt', 'eq', 'neq'):
            ov = pred(f, p, q)
            if ov is not None:
                return ov
        return _pw(A, k, p, q)
    raise KeyError(k)


def rho_expr(A, f, sigs, tau, pred=None):
    """dense-time robustness at tau of: pointwise operators over any variables, and once/historically/eventually/always
    (bounded or not) over sub-formulas that are pointwise over ONE variable."""
    k = f[0]
    if k in ('var', 'const') or k in POINTWISE1 or k in POINTWISE2:
        if all(_is_pointwise(c) for c in f[1:] if isinstance(c, tuple)):
            return point(A, f, {v: val(A, sigs[v], tau) for v in _vars(f)}, pred)
        if k in POINTWISE1:
            return _pw(A, k, rho_expr(A, f[1], sigs, tau, pred))
        p, q = rho_expr(A, f[1], sigs, tau, pred), rho_expr(A, f[2], sigs, tau, pred)
        return _pw(A, k, p, q)
    d = derive(A, f[1], sigs, pred)
    bounds = [c for c in f[1:] if isinstance(c, int)]
    a, b = (bounds + [None, None])[:2]
    return ref_unary(A, k, d, tau, a, b)


def _is_pointwise(f):
    return f[0] in ('var', 'const') or ((f[0] in POINTWISE1 or f[0] in POINTWISE2)
                                        and all(_is_pointwise(c) for c in f[1:] if isinstance(c, tuple)))


# ---- Boolean dense-time semantics (restricted like rho_expr) ---------------------------------------
def bwindow(A, bsig, lo, hi, exists):
    """bsig: [[s_i, Bool_i]]; exists/forall over the segments meeting [lo,hi]"""
    parts = []
    for s, e, v in segs(bsig):
        cond = []
        if hi is not None:
            cond.append(A.le(s, hi))
        if lo is not None and e is not None:
            cond.append(A.lt(lo, e))
        meets = A.And(*cond)
        parts.append(A.And(meets, v) if exists else A.Or(A.Not(meets), v))
    return A.Or(*parts) if exists else A.And(*parts)


def bval(A, bsig, tau):
    v = bsig[-1][1]
    for i in range(len(bsig) - 2, -1, -1):
        v = A.bite(A.lt(tau, bsig[i + 1][0]), bsig[i][1], v)
    return v


def bpoint(A, f, vals):
    k = f[0]
    if k in ('leq', 'lt', 'geq', 'gt', 'eq', 'neq'):
        p, q = point(A, f[1], vals), point(A, f[2], vals)
        if k == 'leq': return A.le(p, q)
        if k == 'lt': return A.lt(p, q)
        if k == 'geq': return A.le(q, p)
        if k == 'gt': return A.lt(q, p)
        if k == 'eq': return A.eq(p, q)
        return A.Not(A.eq(p, q))
    if k == 'not': return A.Not(bpoint(A, f[1], vals))
    if k == 'and': return A.And(bpoint(A, f[1], vals), bpoint(A, f[2], vals))
    if k == 'or': return A.Or(bpoint(A, f[1], vals), bpoint(A, f[2], vals))
    if k == 'implies': return A.Or(A.Not(bpoint(A, f[1], vals)), bpoint(A, f[2], vals))
    raise KeyError(k)


def _is_bpointwise(f):
    k = f[0]
    if k in ('leq', 'lt', 'geq', 'gt', 'eq', 'neq'):
        return _is_pointwise(f[1]) and _is_pointwise(f[2])
    return k in ('not', 'and', 'or', 'implies') and all(_is_bpointwise(c) for c in f[1:] if isinstance(c, tuple))


def sat_expr(A, f, sigs, tau):
    """Boolean dense-time satisfaction at tau; temporal operators over Boolean-pointwise one-variable operands"""
    k = f[0]
    if _is_bpointwise(f):
        return bpoint(A, f, {v: val(A, sigs[v], tau) for v in _vars(f)})
    if k == 'not': return A.Not(sat_expr(A, f[1], sigs, tau))
    if k == 'and': return A.And(sat_expr(A, f[1], sigs, tau), sat_expr(A, f[2], sigs, tau))
    if k == 'or': return A.Or(sat_expr(A, f[1], sigs, tau), sat_expr(A, f[2], sigs, tau))
    if k == 'implies': return A.Or(A.Not(sat_expr(A, f[1], sigs, tau)), sat_expr(A, f[2], sigs, tau))
    vs = sorted(_vars(f[1]))
    if len(vs) != 1 or not _is_bpointwise(f[1]):
        raise ValueError('sat_expr: temporal operand must be Boolean-pointwise over one variable')
    bs = [[t, bpoint(A, f[1], {vs[0]: v})] for t, v in sigs[vs[0]]]
    bounds = [c for c in f[1:] if isinstance(c, int)]
    a, b = (bounds + [None, None])[:2]
    if k == 'once': return bwindow(A, bs, None, tau, True)
    if k == 'historically': return bwindow(A, bs, None, tau, False)
    if k == 'eventually': return bwindow(A, bs, tau, None, True)
    if k == 'always': return bwindow(A, bs, tau, None, False)
    if k == 'once_t': return bwindow(A, bs, tau - b, tau - a, True)
    if k == 'historically_t': return bwindow(A, bs, tau - b, tau - a, False)
    if k == 'eventually_t': return bwindow(A, bs, tau + a, tau + b, True)
    if k == 'always_t': return bwindow(A, bs, tau + a, tau + b, False)
    raise KeyError(k)
