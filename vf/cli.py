import argparse
import os
import sys


def main():
    ap = argparse.ArgumentParser()
    ap.add_argument('prop')
    ap.add_argument('--tier', default=os.environ.get('VERIF_TIER', 'quick'), choices=['quick', 'thorough'])
    ap.add_argument('--replay')
    ap.add_argument('--only')
    ap.add_argument('--jobs', type=int, default=0)
    ap.add_argument('-v', action='store_true')
    a = ap.parse_args()
    sys.path.insert(0, os.environ.get('VERIF_REPO', '/repo'))
    from . import core
    if a.replay:
        sys.exit(core.replay_file(a.replay))
    seed = int(os.environ.get('VERIF_SEED', '0') or 0)
    sys.exit(core.run_property(a.prop.upper(), a.tier, seed, jobs=a.jobs or None, only=a.only, verbose=a.v))


if __name__ == '__main__':
    main()
