"""Run a fixed set of symbolic obligations and print a digest of the canonical rendering of every result term.
Used by C11 under several PYTHONHASHSEED values (enumeration of the seed, not solver-decided)."""
import hashlib
import logging
import sys

import os
sys.path.insert(0, os.environ.get('VERIF_REPO', '/repo'))
import z3

from . import ct, dt, refsem, symx
from .refsem import X, Y, text

logging.disable(logging.WARNING)


def render(v, out):
    if isinstance(v, (list, tuple)):
        for x in v:
            render(x, out)
    elif isinstance(v, symx.Sym):
        k = v.k if isinstance(v.k, int) else z3.simplify(v.k).sexpr()
        out.append('%s|%s' % (k, z3.simplify(v.r).sexpr()))
    else:
        out.append(repr(v))


def main():
    sys.stdout = sys.__stdout__
    chunks = []
    fs = [('and', ('once_t', X, 0, 1), ('historically', Y)), ('since', ('geq', X, Y), ('or', X, Y)), ('until_t', X, Y, 0, 2),
          ('implies', ('rise', X), ('eventually_t', ('abs', Y), 0, 1)), ('add', ('prev', X), ('mul', X, Y))]
    symx.patch_rtamt()
    for f in fs:
        vs = sorted(refsem.variables(f))

        def body(env, f=f, vs=vs):
            w = dt.trace(env, vs, 4)
            s = dt.make_spec('offline', 'p = %s; q = %s; out = (p) or (q)' % (text(f), text(('not', f))), vs + ['p', 'q'])
            o = [p[1] for p in dt.offline(s, w, 4)]
            vals = [s.get_value(n) for n in ('p', 'q')]
            res = [o, vals]
            if not refsem.has_future(f):
                s2 = dt.make_spec('online', 'out = ' + text(f), vs)
                res.append(dt.online(s2, w, 4))
            return res

        def on_path(pr):
            out = []
            render(pr.value if pr.kind == 'ok' else repr(pr.value), out)
            chunks.append('|'.join(str(d) for d in pr.ctx.decisions) + '#' + ';'.join(out))
        symx.explore(body, on_path=on_path)
    for f in [('and', X, Y), ('once_t', X, 0, 1), ('since', X, Y)]:
        vs = sorted(refsem.variables(f))

        def body(env, f=f, vs=vs):
            sigs = {v: ct.signal(env, v, 2, 'zero') for v in vs}
            s = ct.make_spec('offline', 'out = ' + text(f), vs)
            s2 = ct.make_spec('online', 'out = ' + text(f), vs)
            args = lambda: [[v, [list(p) for p in sigs[v]]] for v in vs]
            return [s.evaluate(*args()), s2.update(*args())]

        def on_path(pr):
            out = []
            render(pr.value if pr.kind == 'ok' else repr(pr.value), out)
            chunks.append('|'.join(str(d) for d in pr.ctx.decisions) + '#' + ';'.join(out))
        symx.explore(body, on_path=on_path)
    chunks.sort()
    print(hashlib.sha256('\n'.join(chunks).encode()).hexdigest())


if __name__ == '__main__':
    main()
