"""A user type for object-valued signals (rtamt: import_module() + declare_var(name, type); the formula reads fields as m.x)."""


class Msg(object):
    def __init__(self, x=0.0, y=0.0, z=0.0):
        self.x, self.y, self.z = x, y, z
