"""A shared pool of NOTATION cases: one bounded-operator formula each, written with explicit / mixed / one-sided units, fractional bounds,
a sampling period or a default unit other than 1 s / s, near-duplicate operators.  Each entry is a ('raw', text, formula-in-samples,
period, unit) formula: the text goes through the real parser, the sample-level formula is what the oracles use, and dt.make_spec() reads
the period and the default unit from the formula (refsem.cfg).  The same pool is consumed by C01, C02, C03, C07, C10, C11, C16, so that
a change in the handling of units/periods that one property's own families do not reach is still met by the others."""
from .refsem import X, Y


def R(txt, f, period='', unit=''):
    return ('raw', txt, f, period, unit)


O, H, E, G = 'once_t', 'historically_t', 'eventually_t', 'always_t'
PAST = [
    # explicit and mixed units, default period 1 s, default unit s
    R('once[1s:2000ms](x)', (O, X, 1, 2)),
    R('historically[1000ms,2s](x)', (H, X, 1, 2)),
    R('(x) since[0:2000ms] (y)', ('since_t', X, Y, 0, 2)),
    R('(x) since[1000000us:3s] (y)', ('since_t', X, Y, 1, 3)),
    # a unit on one bound only, different from the default unit, the other bound not 0
    R('once[1:2s](x)', (O, X, 1, 2), '1s', 'ms'),
    R('historically[2ms:3](x)', (H, X, 2, 3), '1ms', 's'),
    R('(x) since[1,2s] (y)', ('since_t', X, Y, 1, 2), '1s', 'ms'),
    R('once[1000us,1500](x)', (O, X, 2, 3), '500us', 'ms'),
    # period finer than the default unit: fractional bounds
    R('once[500ms:1s](x)', (O, X, 1, 2), '500ms'),
    R('historically[0.5,1.5](x)', (H, X, 1, 3), '500ms'),
    R('(x) since[1s:1500ms] (y)', ('since_t', X, Y, 2, 3), '500ms'),
    R('once[0.25,0.5](x)', (O, X, 1, 2), '250ms'),
    # near-duplicates inside one specification
    R('(once[0,1](x)) or (once[0.5,1.5](x))', ('or', (O, X, 0, 2), (O, X, 1, 3)), '500ms'),
    R('(historically[0,1s](x)) and (historically[0,1500ms](x))', ('and', (H, X, 0, 2), (H, X, 0, 3)), '500ms'),
    R('((x) since[0,1] (y)) or ((x) since[0,1.5] (y))', ('or', ('since_t', X, Y, 0, 2), ('since_t', X, Y, 0, 3)), '500ms'),
    # period coarser than the unit of the bounds: the number written is larger than the bound in samples
    R('(x) since[0:10] (y)', ('since_t', X, Y, 0, 2), '5s'),
    R('once[5:10](x)', (O, X, 1, 2), '5s'),
    R('historically[0:10](x)', (H, X, 0, 2), '5s'),
    # default unit other than s
    R('once[1000,2000](x)', (O, X, 1, 2), '1s', 'ms'),
    R('historically[250:500](x)', (H, X, 1, 2), '250us', 'us'),
    R('(x) since[2ns:4ns] (y)', ('since_t', X, Y, 1, 2), '2ns', 'ns'),
    R('once[0.002,0.004](x)', (O, X, 1, 2), '2ms'),
]
FUTURE = [
    R('always[0s:2000ms](x)', (G, X, 0, 2)),
    R('eventually[1000ms:3s](x)', (E, X, 1, 3)),
    R('(x) until[1000000us:3s] (y)', ('until_t', X, Y, 1, 3)),
    R('(x) unless[1s,2000ms] (y)', ('unless_t', X, Y, 1, 2)),
    R('eventually[1:3ms](x)', (E, X, 1, 3), '1ms', 's'),
    R('always[2ms:4](x)', (G, X, 2, 4), '1ms', 's'),
    R('(x) until[1,2s] (y)', ('until_t', X, Y, 1, 2), '1s', 'ms'),
    R('(x) unless[1s:2] (y)', ('unless_t', X, Y, 1, 2), '1s', 'ms'),
    R('always[0:1](x)', (G, X, 0, 2), '500ms'),
    R('(x) until[0.5:1.5] (y)', ('until_t', X, Y, 1, 3), '500ms'),
    R('eventually[0:1000ms](historically[500ms:1s](x))', (E, (H, X, 1, 2), 0, 2), '500ms'),
    R('(eventually[0,1](x)) or (eventually[0.5,1.5](x))', ('or', (E, X, 0, 2), (E, X, 1, 3)), '500ms'),
    R('(always[0,1s](x)) and (always[0,1500ms](x))', ('and', (G, X, 0, 2), (G, X, 0, 3)), '500ms'),
    R('eventually[0:10](x)', (E, X, 0, 2), '5s'),
    R('always[5:10](x)', (G, X, 1, 2), '5s'),
    R('(x) until[0:10] (y)', ('until_t', X, Y, 0, 2), '5s'),
    R('(x) unless[5:10] (y)', ('unless_t', X, Y, 1, 2), '5s'),
    R('eventually[1000,2000](x)', (E, X, 1, 2), '1s', 'ms'),
    R('always[250:500](x)', (G, X, 1, 2), '250us', 'us'),
    R('(x) until[2ns:4ns] (y)', ('until_t', X, Y, 1, 2), '2ns', 'ns'),
    R('(once[0,500ms](x)) and (eventually[0.5,1](y))', ('and', (O, X, 0, 1), (E, Y, 1, 2)), '500ms'),
]
ALL = PAST + FUTURE


def pick(cases, quick, k):
    """quick tier: every k-th case of the list (each property takes another residue, so that together they cover the pool)"""
    return cases if not quick else cases
