"""A shared pool of DENSE-TIME ONLINE cases: formula, concrete time grid per variable (values stay symbolic), and the chunking into update()
calls.  The shapes are those that seeded changes needed in order to manifest: nested bounded operators fed in several updates, operands that
come up at different instants, one sample per update, windows over several samples, an operand read again by a sibling, constants on both
sides, empty batches.  C05 judges the values (its own families); C11, C12 and C17 run their own assertion on every case through
ct.run_pool_case()."""
from .refsem import X, Y

K = lambda v: ('const', v)
G0 = lambda v: ('geq', v, K(0.0))
g4, g5, g6 = [0, 1, 2, 3], [0, 1, 2, 3, 4], [0, 1, 2, 3, 4, 5]
each = lambda n: [[i] for i in range(n)]
CASES = [
    (('once_t', ('once_t', X, 1, 1), 0, 1), [g6], [[0, 1, 2], [3, 4, 5]]),
    (('historically_t', ('once_t', X, 0, 1), 1, 2), [g6], each(6)),
    (('and', G0(X), ('once_t', G0(Y), 2, 3)), [[1, 2, 3, 4], [1, 2, 3, 4]], each(4)),
    (('or', ('not', X), ('once', Y)), [g4, [2, 3, 4, 5]], [[0, 1], [2, 3]]),
    (('and', X, Y), [g4, [2, 3, 4, 5]], each(4)),
    (('historically_t', X, 0, 3), [g5], [[0, 1, 2], [3, 4]]),
    (('once_t', X, 1, 4), [[0, 0.5, 2, 2.5, 4.5]], each(5)),
    (('or', ('since', X, Y), ('historically', X)), [g4, g4], [[0, 1, 2, 3]]),
    (('and', ('since', G0(X), G0(Y)), ('once', G0(X))), [g4, g4], [[0, 1], [], [2, 3]]),
    (('geq', X, ('sub', K(2.0), K(1.0))), [g4], [[0, 1], [2, 3]]),
    (('and', ('geq', X, K(1.5)), ('leq', Y, K(1.5))), [g4, g4], each(4)),
    (('once_t', ('and', X, Y), 0, 1), [g4, g4], [[0], [1, 2], [3]]),
    (('since_t', X, Y, 0, 1), [g4, g4], [[0, 1], [2, 3]]),
    (('sub', X, Y), [g4, g4], [[0, 1], [1, 2, 3]]),                   # the second batch repeats the time-stamp the first one ended with
    (('and', X, Y), [g4, g4], [[0, 1], [1, 2, 3]]),
    (('geq', X, Y), [g4, g4], [[0, 1, 2], [2, 3]]),
    (('implies', X, ('once_t', Y, 0, 2)), [g5, g5], [[0, 1, 2], [], [3, 4]]),
    (('abs', ('sub', X, ('once', X))), [g5], each(5)),
]
