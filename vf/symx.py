"""symx — shadow symbolic execution of the real rtamt code with z3.

The CPython interpreter runs rtamt's own functions; the *values* (samples, time
stamps, tolerances) are `Sym` proxies carrying z3 terms.  Control flow forks in
`SymBool.__bool__`; exploration is re-execution with a decision prefix (DART).

Value domain: extended reals.  Sym.k in {-1,0,+1} (python int when concrete,
z3 Int otherwise) selects -inf / finite / +inf, Sym.r is a z3 Real.
"""
import builtins
import fractions
import math as _math
import signal
import sys
import time

import z3

INF = float('inf')


class PathAbort(BaseException):
    """Path left the claim (infeasible / inf-inf / declared domain error)."""
    def __init__(self, reason):
        BaseException.__init__(self, reason)
        self.reason = reason


class Inconclusive(BaseException):
    """Cap hit, solver unknown, harness non-determinism: never success."""


class HarnessError(Exception):
    pass


# --------------------------------------------------------------------------
# context
# --------------------------------------------------------------------------
SOLVER_TIMEOUT_MS = 60000      # per query; raised in the thorough tier (core.run_property)


class Ctx(object):
    def __init__(self, decisions=(), solver_timeout_ms=None):
        self.solver = z3.Solver()
        self.timeout_ms = solver_timeout_ms
        self.solver.set('timeout', solver_timeout_ms or SOLVER_TIMEOUT_MS)
        self.decisions = list(decisions)
        self.forced = [True] * len(self.decisions)
        self.pos = 0
        self.nq = 0
        self.tq = 0.0
        self.inputs = {}      # name -> Sym   (creation order kept)
        self.observed = []    # (label, value)
        self.notes = []

    def check(self, *assumps):
        t = time.time()
        r = self.solver.check(*assumps)
        if r == z3.unknown and self.solver.reason_unknown() in ('canceled', 'timeout'):
            # a query that hits the per-query time limit on a loaded machine gets one more try with four times the budget before
            # the obligation is given up as inconclusive
            self.solver.set('timeout', 4 * (self.timeout_ms or SOLVER_TIMEOUT_MS))
            try:
                r = self.solver.check(*assumps)
            finally:
                self.solver.set('timeout', self.timeout_ms or SOLVER_TIMEOUT_MS)
        self.tq += time.time() - t
        self.nq += 1
        if r == z3.unknown:
            raise Inconclusive('solver unknown: %s' % self.solver.reason_unknown())
        return r


CTX = None          # symbolic context of the running path, None in concrete mode
STATS = {'paths': 0, 'decisions': 0, 'queries': 0, 'solver_s': 0.0}


def _is0(k):
    return isinstance(k, int) and k == 0


def kterm(k):
    return z3.IntVal(k) if isinstance(k, int) else k


# --------------------------------------------------------------------------
# values
# --------------------------------------------------------------------------
class _Nan(object):
    """IEEE nan sentinel (dense-time code uses float('nan') as 'no previous value')."""
    def __eq__(self, o): return False
    def __ne__(self, o): return True
    def __lt__(self, o): return False
    def __gt__(self, o): return False
    def __le__(self, o): return False
    def __ge__(self, o): return False
    __hash__ = None
    def __repr__(self): return 'NAN'


NAN = _Nan()


def _rat(x):
    f = fractions.Fraction(x)
    if f.denominator == 1:
        return z3.RealVal(f.numerator)
    return z3.RealVal(str(f))


def lift(x):
    if isinstance(x, Sym):
        return x
    if isinstance(x, bool):
        return Sym(0, z3.RealVal(1 if x else 0))
    if isinstance(x, int):
        return Sym(0, z3.RealVal(x))
    if isinstance(x, float):
        if x == INF:
            return Sym(1, z3.RealVal(0))
        if x == -INF:
            return Sym(-1, z3.RealVal(0))
        if x != x:
            return NAN
        return Sym(0, _rat(x))
    if isinstance(x, fractions.Fraction):
        return Sym(0, _rat(x))
    if x is NAN:
        return NAN
    return NotImplemented


class SymBool(object):
    __slots__ = ('t',)

    def __init__(self, t):
        self.t = t

    def __bool__(self):
        return fork(self.t)

    def __invert__(self):
        return SymBool(z3.Not(self.t))

    def __eq__(self, o):
        if isinstance(o, bool):
            return self if o else SymBool(z3.Not(self.t))
        if isinstance(o, SymBool):
            return SymBool(self.t == o.t)
        return NotImplemented

    def __ne__(self, o):
        r = self.__eq__(o)
        if r is NotImplemented:
            return r
        return SymBool(z3.Not(r.t))

    __hash__ = None

    def __repr__(self):
        return 'SymBool(%s)' % self.t


def fork(t):
    t = z3.simplify(t)
    if z3.is_true(t):
        return True
    if z3.is_false(t):
        return False
    c = CTX
    if c is None:
        raise HarnessError('symbolic condition met outside an exploration')
    if c.pos < len(c.decisions):
        d = c.decisions[c.pos]
        c.pos += 1
        c.solver.add(t if d else z3.Not(t))
        return d
    can_t = c.check(t) == z3.sat
    can_f = c.check(z3.Not(t)) == z3.sat
    if not can_t and not can_f:
        raise PathAbort('infeasible')
    d = can_t
    c.solver.add(t if d else z3.Not(t))
    c.decisions.append(d)
    c.forced.append(not (can_t and can_f))
    c.pos += 1
    if len(c.decisions) > MAX_DECISIONS:
        raise Inconclusive('decision cap %d' % MAX_DECISIONS)
    return d


MAX_DECISIONS = 4000


def lt_term(a, b):
    if _is0(a.k) and _is0(b.k):
        return a.r < b.r
    if isinstance(a.k, int) and isinstance(b.k, int):
        if a.k != b.k:
            return z3.BoolVal(a.k < b.k)
        return z3.BoolVal(False)      # both the same infinity
    ak, bk = kterm(a.k), kterm(b.k)
    return z3.Or(ak < bk, z3.And(ak == 0, bk == 0, a.r < b.r))


def eq_term(a, b):
    if _is0(a.k) and _is0(b.k):
        return a.r == b.r
    if isinstance(a.k, int) and isinstance(b.k, int):
        return z3.BoolVal(a.k == b.k)
    ak, bk = kterm(a.k), kterm(b.k)
    return z3.And(ak == bk, z3.Or(ak != 0, a.r == b.r))


def _cmp(fn):
    def m(a, b):
        b = lift(b)
        if b is NotImplemented:
            return b
        if b is NAN:
            return fn is _ne
        return SymBool(fn(a, b))
    return m


def _lt(a, b): return lt_term(a, b)
def _gt(a, b): return lt_term(b, a)
def _le(a, b): return z3.Not(lt_term(b, a))
def _ge(a, b): return z3.Not(lt_term(a, b))
def _eq(a, b): return eq_term(a, b)
def _ne(a, b): return z3.Not(eq_term(a, b))


class Sym(object):
    __slots__ = ('k', 'r')

    def __init__(self, k, r):
        self.k = k
        self.r = r

    __lt__ = _cmp(_lt)
    __gt__ = _cmp(_gt)
    __le__ = _cmp(_le)
    __ge__ = _cmp(_ge)
    __eq__ = _cmp(_eq)
    __ne__ = _cmp(_ne)
    __hash__ = None

    def __neg__(a):
        return Sym(-a.k, -a.r)

    def __pos__(a):
        return a

    def __abs__(a):
        if _is0(a.k):
            return Sym(0, z3.If(a.r >= 0, a.r, -a.r))
        if isinstance(a.k, int):
            return Sym(1, z3.RealVal(0))
        return Sym(z3.If(a.k == 0, 0, 1), z3.If(a.r >= 0, a.r, -a.r))

    def __bool__(a):
        # Python truthiness of a number: x != 0 (e.g. a cache test written `if not value:`)
        if _is0(a.k):
            return fork(a.r != 0)
        return fork(z3.Or(kterm(a.k) != 0, a.r != 0))

    def __float__(a):
        raise HarnessError('float() of a symbolic value escaped the stub')

    def __int__(a):
        raise HarnessError('int() of a symbolic value')

    def __index__(a):
        raise HarnessError('symbolic value used as index')

    def __round__(a, n=None):
        # round(x, n) modelled as floor(x*10^n + 1/2)/10^n (Python rounds half to even on the decimal expansion; the two
        # differ only exactly at ties, which the concolic validation would flag)
        if not _is0(a.k):
            if not fork(kterm(a.k) == 0):
                raise PathAbort('round(inf)')
        sc = 10 ** (n or 0)
        t = z3.ToReal(z3.ToInt(a.r * sc + z3.RealVal('1/2'))) / sc
        return Sym(0, t)

    # --- arithmetic -------------------------------------------------
    def _addsub(a, b, sub):
        b = lift(b)
        if b is NotImplemented:
            return b
        if b is NAN:
            return NAN
        if sub:
            b = -b
        if _is0(a.k) and _is0(b.k):
            return Sym(0, a.r + b.r)
        # IEEE extended addition; inf + (-inf) is nan -> leaves the claim
        ak, bk = kterm(a.k), kterm(b.k)
        if fork(z3.And(ak != 0, bk != 0, ak != bk)):
            raise PathAbort('inf-inf')
        if isinstance(a.k, int) and isinstance(b.k, int):
            k = a.k if a.k != 0 else b.k
        else:
            k = z3.If(ak != 0, ak, bk)
        return Sym(k, a.r + b.r)

    def __add__(a, b): return a._addsub(b, False)
    def __sub__(a, b): return a._addsub(b, True)

    def __radd__(a, b):
        b = lift(b)
        if b is NotImplemented: return b
        if b is NAN: return NAN
        return b._addsub(a, False)

    def __rsub__(a, b):
        b = lift(b)
        if b is NotImplemented: return b
        if b is NAN: return NAN
        return b._addsub(a, True)

    def _sgn(a):
        """sign in {-1,0,1} of an extended real, as z3 Int term"""
        s = z3.If(a.r > 0, 1, z3.If(a.r < 0, -1, 0))
        if _is0(a.k):
            return s
        return z3.If(kterm(a.k) != 0, kterm(a.k), s)

    def _mul(a, b):
        if _is0(a.k) and _is0(b.k):
            return Sym(0, a.r * b.r)
        # IEEE: inf * 0 is nan (outside the claim); inf * finite = +-inf
        ak, bk = kterm(a.k), kterm(b.k)
        sa, sb = a._sgn(), b._sgn()
        if fork(z3.And(z3.Or(ak != 0, bk != 0), z3.Or(sa == 0, sb == 0))):
            raise PathAbort('inf*0')
        return Sym(z3.If(z3.Or(ak != 0, bk != 0), sa * sb, 0), a.r * b.r)

    def _div(a, b):
        if _is0(b.k):
            if fork(b.r == 0):
                raise PathAbort('division by zero')
        if _is0(a.k) and _is0(b.k):
            return Sym(0, a.r / b.r)
        ak, bk = kterm(a.k), kterm(b.k)
        if fork(z3.And(bk == 0, b.r == 0)):
            raise PathAbort('division by zero')
        if fork(z3.And(ak != 0, bk != 0)):
            raise PathAbort('inf/inf')
        # finite/inf = 0 ; inf/finite = +-inf
        sa, sb = a._sgn(), b._sgn()
        return Sym(z3.If(ak != 0, sa * sb, 0), z3.If(bk != 0, 0, a.r / b.r))

    def __mul__(a, b):
        b = lift(b)
        if b is NotImplemented: return b
        if b is NAN: return NAN
        return a._mul(b)

    def __rmul__(a, b):
        b = lift(b)
        if b is NotImplemented: return b
        if b is NAN: return NAN
        return b._mul(a)

    def __truediv__(a, b):
        b = lift(b)
        if b is NotImplemented: return b
        if b is NAN: return NAN
        return a._div(b)

    def __rtruediv__(a, b):
        b = lift(b)
        if b is NotImplemented: return b
        if b is NAN: return NAN
        return b._div(a)

    def __pow__(a, b):
        if isinstance(b, int) and not isinstance(b, bool) and 0 <= b <= 4:
            out = lift(1)
            for _ in range(b):
                out = out * a
            return out
        return ufun('upow', a, b)

    def _finite(a, what):
        if not _is0(a.k):
            if not fork(kterm(a.k) == 0):
                raise PathAbort(what + ' of an infinite value')

    def __floor__(a):
        a._finite('floor')
        return Sym(0, z3.ToReal(z3.ToInt(a.r)))

    def __ceil__(a):
        a._finite('ceil')
        return Sym(0, -z3.ToReal(z3.ToInt(-a.r)))

    def __trunc__(a):
        a._finite('trunc')
        return Sym(0, z3.If(a.r >= 0, z3.ToReal(z3.ToInt(a.r)), -z3.ToReal(z3.ToInt(-a.r))))

    def __floordiv__(a, b):
        return (a / b).__floor__()

    def __rfloordiv__(a, b):
        return (lift(b) / a).__floor__()

    def __mod__(a, b):
        return a - (a / b).__floor__() * b

    def __rmod__(a, b):
        b = lift(b)
        return b - (b / a).__floor__() * a

    def __repr__(a):
        k = a.k if isinstance(a.k, int) else z3.simplify(a.k)
        return 'Sym(%s,%s)' % (k, z3.simplify(a.r))


def ite(c, a, b):
    """c: z3 Bool; a, b: Sym"""
    if z3.is_true(c):
        return a
    if z3.is_false(c):
        return b
    if isinstance(a.k, int) and isinstance(b.k, int) and a.k == b.k:
        k = a.k
    else:
        k = z3.If(c, kterm(a.k), kterm(b.k))
    return Sym(k, z3.If(c, a.r, b.r))


# --------------------------------------------------------------------------
# stubs rebound inside rtamt.* module namespaces
# --------------------------------------------------------------------------
_bmin, _bmax, _bfloat = builtins.min, builtins.max, builtins.float


def _flatten(args):
    if len(args) == 1 and not isinstance(args[0], Sym):
        return list(args[0])
    return list(args)


def _anysym(xs):
    for a in xs:
        if isinstance(a, Sym):
            return True
    return False


def smin(*args, **kw):
    xs = _flatten(args)
    if kw or not _anysym(xs):
        return _bmin(*args, **kw)
    acc = lift(xs[0])
    for a in xs[1:]:
        a = lift(a)
        if a is NAN or acc is NAN:
            raise PathAbort('nan in min')
        acc = ite(lt_term(a, acc), a, acc)       # first wins on ties, as CPython
    return acc


def smax(*args, **kw):
    xs = _flatten(args)
    if kw or not _anysym(xs):
        return _bmax(*args, **kw)
    acc = lift(xs[0])
    for a in xs[1:]:
        a = lift(a)
        if a is NAN or acc is NAN:
            raise PathAbort('nan in max')
        acc = ite(lt_term(acc, a), a, acc)
    return acc


class _SFloatMeta(type):
    def __instancecheck__(cls, inst):
        return isinstance(inst, _bfloat)


class sfloat(_bfloat, metaclass=_SFloatMeta):
    """float() that is the identity on Sym (dense-time intersection calls float(a)/float(b))."""
    def __new__(cls, x=0.0):
        if isinstance(x, Sym):
            return x
        return _bfloat(x)


_UF = {}


def ufun(name, *args):
    args = [lift(a) for a in args]
    for a in args:
        if not _is0(a.k):
            if not fork(kterm(a.k) == 0):
                raise PathAbort('inf in ' + name)
    key = (name, len(args))
    if key not in _UF:
        _UF[key] = z3.Function(name, *([z3.RealSort()] * (len(args) + 1)))
    return Sym(0, _UF[key](*[a.r for a in args]))


class _MathShim(object):
    """math module whose transcendental functions are uninterpreted on Sym (wiring check only)."""
    def __getattr__(self, n):
        return getattr(_math, n)

    @staticmethod
    def _mk(name):
        real = getattr(_math, name)

        def f(*a):
            if _anysym(a):
                return ufun('u' + name, *a)
            return real(*a)
        return f


for _n in ('sqrt', 'exp', 'log', 'pow'):
    setattr(_MathShim, _n, staticmethod(_MathShim._mk(_n)))


def _m_isinf(x):
    if isinstance(x, Sym):
        return False if _is0(x.k) else fork(kterm(x.k) != 0)
    return _math.isinf(x)


def _m_isnan(x):
    return False if isinstance(x, Sym) else (x is NAN or _math.isnan(x))


def _m_isfinite(x):
    return (not _m_isinf(x)) if isinstance(x, Sym) else _math.isfinite(x)


_MathShim.isinf = staticmethod(_m_isinf)
_MathShim.isnan = staticmethod(_m_isnan)
_MathShim.isfinite = staticmethod(_m_isfinite)
_MathShim.fabs = staticmethod(lambda x: abs(x) if isinstance(x, Sym) else _math.fabs(x))
_MathShim.floor = staticmethod(lambda x: x.__floor__() if isinstance(x, Sym) else _math.floor(x))
_MathShim.ceil = staticmethod(lambda x: x.__ceil__() if isinstance(x, Sym) else _math.ceil(x))
_MathShim.trunc = staticmethod(lambda x: x.__trunc__() if isinstance(x, Sym) else _math.trunc(x))
MATH = _MathShim()

_PATCHED = {}     # module name -> {attr: (had, old)}
PATCH_MINMAX = True
STUBS = ['min -> ITE term (first wins on ties)', 'max -> ITE term (first wins on ties)',
         'float -> identity on symbolic values', 'math.sqrt/exp/log/pow -> uninterpreted functions',
         'math.floor/ceil/trunc/isinf/isnan/fabs, round(), bool(), //, %, ** small int -> exact term models on symbolic values']


def patch_rtamt(minmax=True):
    """Rebind min/max/float/math in every loaded rtamt.* module (no source change).
    minmax=False leaves Python's own min/max in place (they then fork on every comparison): the fork-mode twin."""
    global PATCH_MINMAX
    PATCH_MINMAX = minmax
    for name, m in list(sys.modules.items()):
        if m is None or not (name == 'rtamt' or name.startswith('rtamt.')):
            continue
        if name in _PATCHED:
            continue
        d = m.__dict__
        saved = {}
        for attr, new in ((('min', smin), ('max', smax)) if minmax else ()) + (('float', sfloat),):
            saved[attr] = (attr in d, d.get(attr))
            d[attr] = new
        if 'math' in d and d['math'] is _math:
            saved['math'] = (True, d['math'])
            d['math'] = MATH
        _PATCHED[name] = saved


def unpatch_rtamt():
    for name, saved in list(_PATCHED.items()):
        m = sys.modules.get(name)
        if m is not None:
            d = m.__dict__
            for attr, (had, old) in saved.items():
                if had:
                    d[attr] = old
                else:
                    d.pop(attr, None)
        del _PATCHED[name]


# --------------------------------------------------------------------------
# algebras: the oracles are written once over these
# --------------------------------------------------------------------------
class SymAlg(object):
    symbolic = True
    true = z3.BoolVal(True)
    false = z3.BoolVal(False)

    @staticmethod
    def lift(x): return lift(x)
    @staticmethod
    def _2(a, b):
        a, b = lift(a), lift(b)
        if a is NAN or b is NAN:
            raise PathAbort('nan (inf-inf on concrete floats)')
        return a, b
    @staticmethod
    def lt(a, b): return lt_term(*SymAlg._2(a, b))
    @staticmethod
    def le(a, b):
        a, b = SymAlg._2(a, b)
        return z3.Not(lt_term(b, a))
    @staticmethod
    def eq(a, b): return eq_term(*SymAlg._2(a, b))
    @staticmethod
    def And(*c): return z3.And(*c) if c else z3.BoolVal(True)
    @staticmethod
    def Or(*c): return z3.Or(*c) if c else z3.BoolVal(False)
    @staticmethod
    def Not(c): return z3.Not(c)
    @staticmethod
    def Implies(a, b): return z3.Implies(a, b)
    @staticmethod
    def bool(b): return z3.BoolVal(bool(b))
    @staticmethod
    def ite(c, a, b): return ite(c, lift(a), lift(b))
    @staticmethod
    def bite(c, a, b): return z3.If(c, a, b)
    @staticmethod
    def min(xs, empty=INF):
        xs = list(xs)
        return smin(xs) if len(xs) > 1 else (lift(xs[0]) if xs else lift(empty))
    @staticmethod
    def max(xs, empty=-INF):
        xs = list(xs)
        return smax(xs) if len(xs) > 1 else (lift(xs[0]) if xs else lift(empty))
    @staticmethod
    def fn(name, *a): return ufun('u' + name, *a)


class NumAlg(object):
    symbolic = False
    true = True
    false = False

    @staticmethod
    def lift(x): return x
    @staticmethod
    def _nan(a, b):
        if a != a or b != b:
            raise PathAbort('nan (inf-inf on concrete floats)')
    @staticmethod
    def lt(a, b):
        NumAlg._nan(a, b)
        return a < b
    @staticmethod
    def le(a, b):
        NumAlg._nan(a, b)
        return a <= b
    @staticmethod
    def eq(a, b):
        NumAlg._nan(a, b)
        return a == b
    @staticmethod
    def And(*c): return all(c)
    @staticmethod
    def Or(*c): return any(c)
    @staticmethod
    def Not(c): return not c
    @staticmethod
    def Implies(a, b): return (not a) or b
    @staticmethod
    def bool(b): return bool(b)
    @staticmethod
    def ite(c, a, b): return a if c else b
    @staticmethod
    def bite(c, a, b): return a if c else b
    @staticmethod
    def min(xs, empty=INF):
        xs = list(xs)
        return _bmin(xs) if xs else empty
    @staticmethod
    def max(xs, empty=-INF):
        xs = list(xs)
        return _bmax(xs) if xs else empty
    @staticmethod
    def fn(name, *a): return getattr(_math, name)(*a)


# --------------------------------------------------------------------------
# environment handed to a harness body
# --------------------------------------------------------------------------
class Env(object):
    """Symbolic: real()/ext() make solver variables.  Concrete: they read `values`."""

    def __init__(self, values=None, use_fractions=False):
        self.symbolic = values is None
        self.values = values
        self.use_fractions = use_fractions
        self.A = SymAlg if self.symbolic else NumAlg
        self.observed = []
        self.assumed_false = False

    # inputs
    def real(self, name):
        if self.symbolic:
            s = Sym(0, z3.Real(name))
            CTX.inputs[name] = s
            return s
        return self._conc(name)

    def ext(self, name):
        """extended real: may be -inf / +inf"""
        if self.symbolic:
            k = z3.Int(name + '!k')
            CTX.solver.add(k >= -1, k <= 1)
            s = Sym(k, z3.Real(name))
            CTX.inputs[name] = s
            return s
        return self._conc(name)

    def boolean(self, name):
        if self.symbolic:
            b = z3.Bool(name)
            CTX.inputs[name] = b
            return b
        return bool(self.values.get(name, False))

    def _conc(self, name):
        v = self.values.get(name, 0)
        if isinstance(v, (list, tuple)):       # [k, "p/q"]
            k, r = v
            if k > 0: return INF
            if k < 0: return -INF
            v = fractions.Fraction(r)
        if isinstance(v, str):
            v = fractions.Fraction(v)
        if isinstance(v, fractions.Fraction) and not self.use_fractions:
            return _bfloat(v)
        return v

    def assume(self, cond):
        """cond built with env.A (z3 Bool / python bool) or a SymBool."""
        if isinstance(cond, SymBool):
            cond = cond.t
        if self.symbolic:
            CTX.solver.add(cond)
            if CTX.pos >= len(CTX.decisions):      # only check when extending
                if CTX.check() != z3.sat:
                    raise PathAbort('assumption unsatisfiable')
        else:
            if not cond:
                self.assumed_false = True
                raise PathAbort('assumption false in concrete run')

    def observe(self, label, value):
        self.observed.append((label, value))


def memo(env, cache, key, fn):
    """Oracle terms depend only on the (identically named) input symbols, not on the path: build them once per
    obligation in symbolic mode.  Concrete runs always recompute."""
    if not env.symbolic:
        return fn()
    if key not in cache:
        cache[key] = fn()
    return cache[key]


# --------------------------------------------------------------------------
# model extraction
# --------------------------------------------------------------------------
def model_values(ctx, model):
    vals = {}
    for name, s in ctx.inputs.items():
        if isinstance(s, Sym):
            k = s.k if isinstance(s.k, int) else model.eval(s.k, model_completion=True).as_long()
            r = model.eval(s.r, model_completion=True)
            if z3.is_algebraic_value(r):
                r = r.approx(20)
            fr = fractions.Fraction(r.numerator_as_long(), r.denominator_as_long())
            vals[name] = [k, str(fr)]
        else:
            vals[name] = bool(z3.is_true(model.eval(s, model_completion=True)))
    return vals


def nice_model(ctx, extra, grid=4):
    """Prefer a model whose reals lie on a dyadic grid (exact as floats)."""
    cons = []
    for s in ctx.inputs.values():
        if isinstance(s, Sym):
            cons.append(z3.IsInt(s.r * grid))
            cons.append(s.r <= 64)
            cons.append(s.r >= -64)
    ctx.solver.push()
    try:
        ctx.solver.add(extra)
        try:
            if ctx.solver.check(*cons) == z3.sat:
                return ctx.solver.model()
        except z3.Z3Exception:
            pass
        if ctx.solver.check() == z3.sat:
            return ctx.solver.model()
        return None
    finally:
        ctx.solver.pop()


# --------------------------------------------------------------------------
# exploration
# --------------------------------------------------------------------------
class PathResult(object):
    __slots__ = ('kind', 'value', 'ctx', 'env')

    def __init__(self, kind, value, ctx, env):
        self.kind = kind      # 'ok' | 'abort' | 'raised'
        self.value = value
        self.ctx = ctx
        self.env = env


def _from_rtamt(exc):
    """does the traceback pass through a frame of the rtamt package (the code under test)?"""
    tb = exc.__traceback__
    while tb is not None:
        fn = tb.tb_frame.f_code.co_filename.replace('\\', '/')
        if '/rtamt/' in fn and '/vf/' not in fn:
            return True
        tb = tb.tb_next
    return False


def explore(body, max_paths=20000, on_path=None):
    """Run body(env) on every feasible path.  on_path(PathResult) is called per path
    (while its solver is alive); returns summary dict."""
    global CTX
    pending = [[]]
    npaths = 0
    aborted = {}
    ndec = 0
    nq = 0
    tq = 0.0
    while pending:
        prefix = pending.pop()
        ctx = Ctx(prefix)
        CTX = ctx
        env = Env()
        try:
            try:
                val = body(env)
                pr = PathResult('ok', val, ctx, env)
            except PathAbort as e:
                aborted[e.reason] = aborted.get(e.reason, 0) + 1
                pr = PathResult('abort', e, ctx, env)
            except Inconclusive:
                raise
            except Exception as e:
                if not _from_rtamt(e):
                    # raised by the harness/oracle itself, not by the code under test: never a verdict about rtamt
                    raise Inconclusive('harness exception %s: %s' % (type(e).__name__, e))
                pr = PathResult('raised', e, ctx, env)
            if ctx.pos < len(prefix):
                raise Inconclusive('harness not deterministic under re-execution')
            base = len(prefix)
            decs = ctx.decisions
            for i in range(base, len(decs)):
                if not ctx.forced[i]:
                    pending.append(decs[:i] + [not decs[i]])
            npaths += 1
            ndec += len(decs)
            if on_path is not None:
                on_path(pr)
        finally:
            nq += ctx.nq
            tq += ctx.tq
            CTX = None
        if npaths >= max_paths and pending:
            raise Inconclusive('path cap %d' % max_paths)
    return {'paths': npaths, 'decisions': ndec, 'queries': nq, 'solver_s': tq, 'aborted': aborted}


def run_concrete(body, values, use_fractions=False):
    """Run body on plain numbers with the stubs removed.  Returns ('ok', val) /
    ('raised', exc) / ('abort', reason)."""
    global CTX
    saved = CTX
    CTX = None
    was = bool(_PATCHED)
    unpatch_rtamt()
    env = Env(values, use_fractions)
    try:
        try:
            return 'ok', body(env), env
        except PathAbort as e:
            return 'abort', e.reason, env
        except Exception as e:
            if not _from_rtamt(e):
                return 'abort', 'harness exception %s: %s' % (type(e).__name__, e), env
            return 'raised', e, env
    finally:
        if was:
            patch_rtamt(PATCH_MINMAX)
        CTX = saved


class _Alarm(object):
    def __init__(self, seconds):
        self.seconds = seconds

    def _fire(self, *a):
        raise Inconclusive('wall cap %ss' % self.seconds)

    def __enter__(self):
        if self.seconds:
            self.old = signal.signal(signal.SIGALRM, self._fire)
            # repeating: if the first expiry is swallowed (e.g. raised inside a callback that ignores exceptions) it fires again
            signal.setitimer(signal.ITIMER_REAL, self.seconds, 5)
        return self

    def __exit__(self, *a):
        if self.seconds:
            signal.setitimer(signal.ITIMER_REAL, 0)
            signal.signal(signal.SIGALRM, self.old)
        return False


def wall_cap(seconds):
    return _Alarm(seconds)
