"""Second engine (CrossHair 0.0.110, z3-backed symbolic execution of Python): a handful of unit-level contracts over
the real rtamt operation classes.  Each function returns True iff the real code agrees with a window reference written
here; CrossHair searches for an input that makes the postcondition false.  Run by C02/C08 in the thorough tier."""
from fractions import Fraction
from typing import List

from rtamt.exception.exception import RTAMTException
from rtamt.semantics.stl.discrete_time.online.once_timed_operation import OnceTimedOperation
from rtamt.semantics.stl.discrete_time.online.historically_timed_operation import HistoricallyTimedOperation
from rtamt.semantics.stl.discrete_time.online.since_timed_operation import SinceTimedOperation
from rtamt.semantics.stl.discrete_time.online.precedes_timed_operation import PrecedesTimedOperation
from rtamt.semantics.stl.discrete_time.online.since_operation import SinceOperation
from rtamt.semantics.stl.discrete_time.online.rise_operation import RiseOperation

INF = float('inf')


def once_0_2(xs: List[float]) -> bool:
    """
    pre: 1 <= len(xs) <= 4
    pre: all(-100.0 <= x <= 100.0 for x in xs)
    post: _
    """
    op = OnceTimedOperation(0, 2)
    ok = True
    for i, x in enumerate(xs):
        ok = ok and op.update(x) == max(xs[max(0, i - 2):i + 1])
    return ok


def historically_1_2(xs: List[float]) -> bool:
    """
    pre: 1 <= len(xs) <= 4
    pre: all(-100.0 <= x <= 100.0 for x in xs)
    post: _
    """
    op = HistoricallyTimedOperation(1, 2)
    ok = True
    for i, x in enumerate(xs):
        win = xs[max(0, i - 2):i] if i >= 1 else []
        ok = ok and op.update(x) == (min(win) if win else INF)
    return ok


def since_0_1(xs: List[float], ys: List[float]) -> bool:
    """
    pre: 1 <= len(xs) <= 3 and len(ys) == len(xs)
    pre: all(-100.0 <= x <= 100.0 for x in xs) and all(-100.0 <= y <= 100.0 for y in ys)
    post: _
    """
    op = SinceTimedOperation(0, 1)
    ok = True
    for i in range(len(xs)):
        got = op.update(xs[i], ys[i])
        cands = [ys[i]]
        if i >= 1:
            cands.append(min(ys[i - 1], xs[i]))
        ok = ok and got == max(cands)
    return ok


def since_unbounded(xs: List[float], ys: List[float]) -> bool:
    """
    pre: 1 <= len(xs) <= 3 and len(ys) == len(xs)
    pre: all(-100.0 <= x <= 100.0 for x in xs) and all(-100.0 <= y <= 100.0 for y in ys)
    post: _
    """
    op = SinceOperation()
    ok = True
    for i in range(len(xs)):
        got = op.update(xs[i], ys[i])
        want = max(min([ys[j]] + xs[j + 1:i + 1]) for j in range(i + 1))
        ok = ok and got == want
    return ok


def precedes_0_1(xs: List[float], ys: List[float]) -> bool:
    """
    pre: 2 <= len(xs) <= 3 and len(ys) == len(xs)
    pre: all(-100.0 <= x <= 100.0 for x in xs) and all(-100.0 <= y <= 100.0 for y in ys)
    post: _
    """
    op = PrecedesTimedOperation(0, 1)
    ok = True
    for i in range(len(xs)):
        got = op.update(xs[i], ys[i])
        if i >= 1:          # value of x until[0,1] y at sample i-1 on the prefix seen so far
            t = i - 1
            ok = ok and got == max(ys[t], min(xs[t], ys[t + 1]))
    return ok


def rise_op(xs: List[float]) -> bool:
    """
    pre: 1 <= len(xs) <= 4
    pre: all(-100.0 <= x <= 100.0 for x in xs)
    post: _
    """
    op = RiseOperation()
    ok = True
    for i, x in enumerate(xs):
        got = op.update(x)
        ok = ok and got == (x if i == 0 else min(-xs[i - 1], x))
    return ok


def unit_transformer(begin_ms: int, end_ms: int, period_ms: int) -> bool:
    """
    pre: 0 <= begin_ms <= end_ms <= 40
    pre: 1 <= period_ms <= 8
    post: _
    """
    from rtamt.semantics.discrete_time_interpreter import DiscreteTimeInterpreter
    from rtamt.semantics.interval.interval import Interval

    class _Ast(object):
        unit = 's'
        U = {'s': 10 ** 9, 'ms': 10 ** 6, 'us': 10 ** 3, 'ns': 1}
    it = DiscreteTimeInterpreter()
    it.ast = _Ast()
    it.set_sampling_period(period_ms, 'ms', 0.1)
    node = Interval(Fraction(begin_ms), Fraction(end_ms), 'ms', 'ms')
    try:
        b, e = it.time_unit_transformer(node)
    except RTAMTException:
        return begin_ms % period_ms != 0 or end_ms % period_ms != 0
    return begin_ms % period_ms == 0 and end_ms % period_ms == 0 and b == begin_ms // period_ms and e == end_ms // period_ms
