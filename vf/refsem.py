"""Reference semantics for discrete time, transcribed from README.md (section "Theory") and
README_extensions.md — *not* from rtamt's code.  Written once over an algebra `A`
(symx.SymAlg for the solver queries, symx.NumAlg for concrete replay).

Formulas are nested tuples:  ('var','x') ('const',1.5) (op, child[, child][, a, b])
"""
INF = float('inf')
TWIN = None      # vacuity guard: a deliberately wrong oracle (set by core.decide for twin obligations only)

UN = {'not': 'not({0})', 'neg': '-({0})', 'abs': 'abs({0})', 'sqrt': 'sqrt({0})', 'exp': 'exp({0})', 'ln': 'ln({0})',
      'rise': 'rise({0})', 'fall': 'fall({0})',
      'prev': 'prev({0})', 's_prev': 's_prev({0})', 'next': 'next({0})', 's_next': 's_next({0})',
      'once': 'once({0})', 'historically': 'historically({0})', 'eventually': 'eventually({0})',
      'always': 'always({0})'}
UNT = {'once_t': 'once[{a},{b}]({0})', 'historically_t': 'historically[{a},{b}]({0})',
       'eventually_t': 'eventually[{a},{b}]({0})', 'always_t': 'always[{a},{b}]({0})'}
BIN = {'and': '({0}) and ({1})', 'or': '({0}) or ({1})', 'implies': '({0}) implies ({1})', 'iff': '({0}) iff ({1})',
       'xor': '({0}) xor ({1})',
       'add': '({0}) + ({1})', 'sub': '({0}) - ({1})', 'mul': '({0}) * ({1})', 'div': '({0}) / ({1})',
       'pow': 'pow({0},{1})', 'log': 'log({0},{1})',
       'leq': '({0}) <= ({1})', 'lt': '({0}) < ({1})', 'geq': '({0}) >= ({1})', 'gt': '({0}) > ({1})',
       'eq': '({0}) == ({1})', 'neq': '({0}) !== ({1})',
       'since': '({0}) since ({1})', 'until': '({0}) until ({1})', 'unless': '({0}) unless ({1})'}
BINT = {'since_t': '({0}) since[{a},{b}] ({1})', 'until_t': '({0}) until[{a},{b}] ({1})',
        'unless_t': '({0}) unless[{a},{b}] ({1})'}
PRED = ('leq', 'lt', 'geq', 'gt', 'eq', 'neq')
ARITH = ('neg', 'abs', 'sqrt', 'exp', 'ln', 'add', 'sub', 'mul', 'div', 'pow', 'log')
FUTURE = {'next', 's_next', 'eventually', 'always', 'until', 'unless', 'eventually_t', 'always_t', 'until_t',
          'unless_t'}
UNBOUNDED_FUTURE = {'eventually', 'always', 'until', 'unless'}
PAST = {'prev', 's_prev', 'once', 'historically', 'since', 'once_t', 'historically_t', 'since_t', 'rise', 'fall'}


def T(f):
    """lists (from JSON) back to tuples"""
    if isinstance(f, (list, tuple)):
        return tuple(T(c) for c in f)
    return f


def cfg(f):
    """(period, unit) carried by a ('raw', text, formula, period, unit) node anywhere in f (vf/pool.py), else (None, None)"""
    import re
    f = T(f)
    if not isinstance(f, tuple):
        return None, None
    if f[0] == 'raw':
        if len(f) >= 5 and (f[3] or f[4]):
            m = re.match(r'(\d+)(\w+)$', f[3]) if f[3] else None
            return ((int(m.group(1)), m.group(2)) if m else None), (f[4] or None)
        return None, None
    for c in kids(f):
        r = cfg(c)
        if r != (None, None):
            return r
    return None, None


def kids(f):
    return [c for c in f[1:] if isinstance(c, tuple)]


def fmt_bound(b):
    return str(b)


def text(f):
    f = T(f)
    k = f[0]
    if k == 'var':
        return f[1]
    if k == 'const':
        return repr(f[1])
    if k == 'raw':                      # ('raw', text, equivalent-formula)
        return f[1]
    if k in UN:
        return UN[k].format(text(f[1]))
    if k in UNT:
        return UNT[k].format(text(f[1]), a=fmt_bound(f[2]), b=fmt_bound(f[3]))
    if k in BIN:
        return BIN[k].format(text(f[1]), text(f[2]))
    if k in BINT:
        return BINT[k].format(text(f[1]), text(f[2]), a=fmt_bound(f[3]), b=fmt_bound(f[4]))
    raise KeyError(k)


def variables(f):
    f = T(f)
    if f[0] == 'var':
        return {f[1]}
    if f[0] == 'raw':
        return variables(f[2])
    out = set()
    for c in kids(f):
        out |= variables(c)
    return out


def has(f, ops):
    f = T(f)
    if f[0] == 'raw':
        return has(f[2], ops)
    return f[0] in ops or any(has(c, ops) for c in kids(f))


def has_future(f):
    return has(f, FUTURE)


def size(f):
    f = T(f)
    return 1 + sum(size(c) for c in kids(f))


def hor(f):
    """horizon in samples (README: largest total of upper bounds along a chain of future operators)"""
    f = T(f)
    k = f[0]
    if k in ('var', 'const'):
        return 0
    if k == 'raw':
        return hor(f[2])
    m = max(hor(c) for c in kids(f))
    if k in ('eventually_t', 'always_t'):
        return f[3] + m
    if k in ('until_t', 'unless_t'):
        return f[4] + m
    if k in ('next', 's_next'):
        return 1 + m
    if k in UNBOUNDED_FUTURE:
        return INF
    return m


def rho(A, f, w, n, pred=None):
    """robustness signal of f over trace w (dict var -> list of n values); list of n values.
    pred(f, p, q, t) -> value or None overrides the robustness of predicate f (IA-STL)."""
    f = T(f)
    k = f[0]
    R = range(n)
    L = A.lift
    mx, mn = A.max, A.min
    if k == 'var':
        return [L(v) for v in w[f[1]]]
    if k == 'const':
        return [L(f[1])] * n
    if k == 'raw':
        return rho(A, f[2], w, n, pred)
    if k in UN or k in UNT:
        p = rho(A, f[1], w, n, pred)
    else:
        p = rho(A, f[1], w, n, pred)
        q = rho(A, f[2], w, n, pred)
    if pred is not None and k in PRED:
        ov = [pred(f, p[t], q[t]) for t in R]
        if ov[0] is not None:
            return ov
    if k in ('not', 'neg'):
        return [-p[t] for t in R]
    if k == 'abs':
        return [abs(p[t]) for t in R]
    if k in ('sqrt', 'exp'):
        return [A.fn(k, p[t]) for t in R]
    if k == 'ln':
        return [A.fn('log', p[t]) for t in R]
    if k == 'pow':
        return [A.fn('pow', p[t], q[t]) for t in R]
    if k == 'log':
        return [A.fn('log', p[t], q[t]) for t in R]
    if k == 'rise':
        return [p[t] if t == 0 else mn([-p[t - 1], p[t]]) for t in R]
    if k == 'fall':
        return [-p[t] if t == 0 else mn([p[t - 1], -p[t]]) for t in R]
    if k == 'prev':
        return [L(-INF if TWIN == 'pad' else INF) if t == 0 else p[t - 1] for t in R]
    if k == 's_prev':
        return [L(-INF) if t == 0 else p[t - 1] for t in R]
    if k == 'next':
        return [p[t + 1] if t + 1 < n else L(-INF if TWIN == 'pad' else INF) for t in R]
    if k == 's_next':
        return [p[t + 1] if t + 1 < n else L(-INF) for t in R]
    if k == 'once':
        return [mx(p[0:t + 1]) for t in R]
    if k == 'historically':
        return [mn(p[0:t + 1]) for t in R]
    if k == 'eventually':
        return [mx(p[t:n]) for t in R]
    if k == 'always':
        return [mn(p[t:n]) for t in R]
    if k == 'once_t':
        a, b = f[2], f[3]
        sh = 1 if TWIN == 'window' else 0          # twin: the oldest sample of the window is dropped
        return [mx([p[tp] for tp in range(max(0, t - b + sh), t - a + 1)]) for t in R]
    if k == 'historically_t':
        a, b = f[2], f[3]
        return [mn([p[tp] for tp in range(max(0, t - b), t - a + 1)]) for t in R]
    if k == 'eventually_t':
        a, b = f[2], f[3]
        sh = 1 if TWIN == 'window' else 0
        return [mx([p[tp] for tp in range(t + a, min(t + b - sh, n - 1) + 1)]) for t in R]
    if k == 'always_t':
        a, b = f[2], f[3]
        return [mn([p[tp] for tp in range(t + a, min(t + b, n - 1) + 1)]) for t in R]
    if k == 'and':
        return [(mx if TWIN == 'minmax' else mn)([p[t], q[t]]) for t in R]
    if k == 'or':
        return [mx([p[t], q[t]]) for t in R]
    if k == 'implies':
        return [mx([-p[t], q[t]]) for t in R]
    if k == 'iff':
        return [-abs(p[t] - q[t]) for t in R]
    if k == 'xor':
        return [abs(p[t] - q[t]) for t in R]
    if k == 'add':
        return [p[t] + q[t] for t in R]
    if k == 'sub':
        return [p[t] - q[t] for t in R]
    if k == 'mul':
        return [p[t] * q[t] for t in R]
    if k == 'div':
        return [p[t] / q[t] for t in R]
    if k in ('leq', 'lt'):
        return [q[t] - p[t] for t in R]
    if k in ('geq', 'gt'):
        return [p[t] - q[t] for t in R]
    if k == 'eq':
        return [-abs(p[t] - q[t]) for t in R]
    if k == 'neq':
        return [abs(p[t] - q[t]) for t in R]
    if k == 'since':
        hi = 0 if TWIN == 'since' else 1            # twin: the witness may not be the current sample
        return [mx([mn([q[tp]] + [p[tpp] for tpp in range(tp + 1, t + 1)]) for tp in range(0, t + hi)]) for t in R]
    if k == 'until':
        return [mx([mn([q[tp]] + [p[tpp] for tpp in range(t, tp)]) for tp in range(t, n)]) for t in R]
    if k == 'since_t':
        a, b = f[3], f[4]
        return [mx([mn([q[tp]] + [p[tpp] for tpp in range(tp + 1, t + 1)])
                    for tp in range(max(0, t - b), t - a + 1)]) for t in R]
    if k == 'until_t':
        a, b = f[3], f[4]
        return [mx([mn([q[tp]] + [p[tpp] for tpp in range(t, tp)])
                    for tp in range(t + a, min(t + b, n - 1) + 1)]) for t in R]
    if k == 'unless':
        return rho(A, ('or', ('always', f[1]), ('until', f[1], f[2])), w, n, pred)
    if k == 'unless_t':
        a, b = f[3], f[4]
        return rho(A, ('or', ('always_t', f[1], 0, b), ('until_t', f[1], f[2], a, b)), w, n, pred)
    raise KeyError(k)


def sat(A, f, w, n, truth=None):
    """Boolean satisfaction signal (list of n A-booleans); numeric sub-terms via rho.
    truth: optional dict var -> list of n Booleans; then a bare variable is an atom with that truth value."""
    f = T(f)
    k = f[0]
    R = range(n)
    if k == 'raw':
        return sat(A, f[2], w, n, truth)
    if k == 'var' and truth is not None:
        return list(truth[f[1]])
    if k in PRED:
        p = rho(A, f[1], w, n)
        q = rho(A, f[2], w, n)
        if k == 'leq': return [A.le(p[t], q[t]) for t in R]
        if k == 'lt': return [A.lt(p[t], q[t]) for t in R]
        if k == 'geq': return [A.le(q[t], p[t]) for t in R]
        if k == 'gt': return [A.lt(q[t], p[t]) for t in R]
        if k == 'eq': return [A.eq(p[t], q[t]) for t in R]
        if k == 'neq': return [A.Not(A.eq(p[t], q[t])) for t in R]
    if k in ('var', 'const') or k in ARITH:
        # a numeric term used as a formula: satisfied iff its value is >= 0 is *not* fixed by the README;
        # callers only use sat on formulas whose atoms are predicates.
        raise ValueError('sat of a numeric term')
    if k in UN or k in UNT:
        p = sat(A, f[1], w, n, truth)
    else:
        p = sat(A, f[1], w, n, truth)
        q = sat(A, f[2], w, n, truth)
    And, Or, Not, B = A.And, A.Or, A.Not, A.bool
    if k == 'not': return [p[t] if TWIN == 'sat' else Not(p[t]) for t in R]
    if k == 'and': return [And(p[t], q[t]) for t in R]
    if k == 'or': return [Or(p[t], q[t]) for t in R]
    if k == 'implies': return [Or(Not(p[t]), q[t]) for t in R]
    if k == 'iff': return [A.bite(p[t], q[t], Not(q[t])) for t in R]
    if k == 'xor': return [A.bite(p[t], Not(q[t]), q[t]) for t in R]
    if k == 'rise': return [p[t] if t == 0 else And(Not(p[t - 1]), p[t]) for t in R]
    if k == 'fall': return [Not(p[t]) if t == 0 else And(p[t - 1], Not(p[t])) for t in R]
    if k == 'prev': return [B(True) if t == 0 else p[t - 1] for t in R]
    if k == 's_prev': return [B(False) if t == 0 else p[t - 1] for t in R]
    if k == 'next': return [p[t + 1] if t + 1 < n else B(True) for t in R]
    if k == 's_next': return [p[t + 1] if t + 1 < n else B(False) for t in R]
    if k == 'once': return [Or(*p[(1 if TWIN == 'sat' and t > 0 else 0):t + 1]) for t in R]
    if k == 'historically': return [And(*p[0:t + 1]) for t in R]
    if k == 'eventually': return [Or(*p[t:n]) for t in R]
    if k == 'always': return [And(*p[t:n]) for t in R]
    if k == 'once_t':
        a, b = f[2], f[3]
        return [Or(*[p[tp] for tp in range(max(0, t - b), t - a + 1)]) for t in R]
    if k == 'historically_t':
        a, b = f[2], f[3]
        return [And(*[p[tp] for tp in range(max(0, t - b), t - a + 1)]) for t in R]
    if k == 'eventually_t':
        a, b = f[2], f[3]
        return [Or(*[p[tp] for tp in range(t + a, min(t + b, n - 1) + 1)]) for t in R]
    if k == 'always_t':
        a, b = f[2], f[3]
        return [And(*[p[tp] for tp in range(t + a, min(t + b, n - 1) + 1)]) for t in R]
    if k == 'since':
        return [Or(*[And(q[tp], *[p[x] for x in range(tp + 1, t + 1)]) for tp in range(0, t + 1)]) for t in R]
    if k == 'until':
        return [Or(*[And(q[tp], *[p[x] for x in range(t, tp)]) for tp in range(t, n)]) for t in R]
    if k == 'since_t':
        a, b = f[3], f[4]
        return [Or(*[And(q[tp], *[p[x] for x in range(tp + 1, t + 1)])
                     for tp in range(max(0, t - b), t - a + 1)]) for t in R]
    if k == 'until_t':
        a, b = f[3], f[4]
        return [Or(*[And(q[tp], *[p[x] for x in range(t, tp)])
                     for tp in range(t + a, min(t + b, n - 1) + 1)]) for t in R]
    if k == 'unless':
        return sat(A, ('or', ('always', f[1]), ('until', f[1], f[2])), w, n, truth)
    if k == 'unless_t':
        a, b = f[3], f[4]
        return sat(A, ('or', ('always_t', f[1], 0, b), ('until_t', f[1], f[2], a, b)), w, n, truth)
    raise KeyError(k)


# --------------------------------------------------------------------------
# formula families
# --------------------------------------------------------------------------
X, Y, Z = ('var', 'x'), ('var', 'y'), ('var', 'z')

BOUNDS_Q = [(0, 0), (0, 1), (0, 2), (1, 1), (1, 2), (1, 3), (2, 2)]
BOUNDS_T = [(a, b) for b in range(5) for a in range(b + 1)] + [(0, 6), (3, 6)]


def f1(bounds, ops=None, arith=True):
    """F1: one operator over variable operands"""
    out = []
    for k in UN:
        if k in ('sqrt', 'exp', 'ln') and not arith:
            continue
        out.append((k, X))
    for k in UNT:
        for a, b in bounds:
            out.append((k, X, a, b))
    for k in BIN:
        if k in ('pow', 'log', 'div') and not arith:
            continue
        out.append((k, X, Y))
    for k in BINT:
        for a, b in bounds:
            out.append((k, X, Y, a, b))
    if ops is not None:
        out = [f for f in out if f[0] in ops]
    return out


BOOL_UN = ['not', 'rise', 'fall', 'prev', 's_prev', 'next', 's_next', 'once', 'historically', 'eventually', 'always']
BOOL_BIN = ['and', 'or', 'implies', 'iff', 'xor', 'since', 'until', 'unless']
NUM_UN = ['neg', 'abs']
NUM_BIN = ['add', 'sub', 'mul']


def is_numeric(f):
    f = T(f)
    return f[0] in ('var', 'const') or f[0] in ARITH


def gen_formula(rng, depth, ops, bounds, vars_=('x', 'y'), numeric=False):
    """random well-typed formula: Boolean layer over predicates/variables, arithmetic below predicates"""
    if depth <= 0:
        if rng.random() < 0.15:
            return ('const', rng.choice([0.0, 1.0, -1.0, 2.5]))
        return ('var', rng.choice(vars_))
    cands = [k for k in ops]
    if numeric:
        cands = [k for k in cands if k in NUM_UN + NUM_BIN]
        if not cands:
            return ('var', rng.choice(vars_))
    k = rng.choice(cands)
    if k in NUM_UN:
        return (k, gen_formula(rng, depth - 1, ops, bounds, vars_, True))
    if k in NUM_BIN:
        return (k, gen_formula(rng, depth - 1, ops, bounds, vars_, True),
                gen_formula(rng, depth - 1, ops, bounds, vars_, True))
    if k in PRED:
        return (k, gen_formula(rng, depth - 1, ops, bounds, vars_, True),
                gen_formula(rng, depth - 1, ops, bounds, vars_, True))
    sub = lambda: gen_formula(rng, depth - 1, ops, bounds, vars_, False)
    if k in UN:
        return (k, sub())
    if k in UNT:
        a, b = rng.choice(bounds)
        return (k, sub(), a, b)
    if k in BIN:
        return (k, sub(), sub())
    if k in BINT:
        a, b = rng.choice(bounds)
        return (k, sub(), sub(), a, b)
    raise KeyError(k)


def depth2(ops_outer, ops_inner, bounds):
    """F2: every op1(op2(..),..) ; binary operators get the nested operand in either position"""
    def inst(k, c1, c2, bd):
        if k in UN: return [(k, c1)]
        if k in UNT: return [(k, c1, bd[0], bd[1])]
        if k in BIN: return [(k, c1, c2), (k, c2, c1)]
        if k in BINT: return [(k, c1, c2, bd[0], bd[1]), (k, c2, c1, bd[0], bd[1])]
        raise KeyError(k)
    inner = []
    for k in ops_inner:
        for bd in (bounds if (k in UNT or k in BINT) else [None]):
            inner.extend(inst(k, X, Y, bd)[:1])
    out = []
    for k in ops_outer:
        for bd in (bounds if (k in UNT or k in BINT) else [None]):
            for i in inner:
                out.extend(inst(k, i, Z, bd))
    return out


def pred_sat(A, k, p, q):
    """Boolean satisfaction of the predicate p k q"""
    if k == 'leq': return A.le(p, q)
    if k == 'lt': return A.lt(p, q)
    if k == 'geq': return A.le(q, p)
    if k == 'gt': return A.lt(q, p)
    if k == 'eq': return A.eq(p, q)
    if k == 'neq': return A.Not(A.eq(p, q))
    raise KeyError(k)


def ia_pred(A, semantics, inputs, outputs):
    """README_extensions: predicate override for the interface-aware semantics.
    semantics in standard/output_robustness/input_robustness/output_vacuity/input_vacuity"""
    def hook(f, p, q):
        if semantics == 'standard':
            return None
        vs = variables(f)
        watch = outputs if semantics.startswith('output') else inputs
        if vs & set(watch):
            return None
        if semantics.endswith('vacuity'):
            return A.lift(0)
        return A.ite(pred_sat(A, f[0], p, q), INF, -INF)
    return hook
